#!/bin/sh
# Build the framework from files on disk only (offline): anchors the oracle and pre-builds the engines
# so that the quick checks only pay for incremental rebuilds.
set -e
cd "$(dirname "$0")"
export CARGO_NET_OFFLINE=true
python3 runner/prebuild.py
