//! Stand-in for the `wild` crate, which is not in the offline cargo cache. On Unix the real crate's
//! `args_os()` is exactly `std::env::args_os()` (globbing is only done on Windows).
pub fn args_os() -> std::env::ArgsOs {
    std::env::args_os()
}
