// Stand-in for <oneapi/tbb/parallel_invoke.h> used by the free-running ThreadSanitizer pass:
// the two callables really run on two threads.
#pragma once
#ifndef TBB_USE_EXCEPTIONS
#define TBB_USE_EXCEPTIONS 0
#endif
#include <pthread.h>
namespace oneapi {
namespace tbb {
template <typename F> static void *verif_thread_main(void *c) {
  (*static_cast<const F *>(c))();
  return nullptr;
}
template <typename F0, typename F1> void parallel_invoke(const F0 &f0, const F1 &f1) {
  pthread_t t;
  if (pthread_create(&t, nullptr, verif_thread_main<F1>, const_cast<F1 *>(&f1)) != 0) {
    f0();
    f1();
    return;
  }
  f0();
  pthread_join(t, nullptr);
}
} // namespace tbb
} // namespace oneapi
