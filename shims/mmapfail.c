/* LD_PRELOAD interposer used by the C11 check: makes file-backed mmap fail with ENODEV when
 * VERIF_MMAP_FAIL=1, so that the rewind-and-read fallback of update_mmap* is driven on ordinary
 * regular files. Anonymous mappings (allocator, thread stacks) are never touched. */
#define _GNU_SOURCE
#include <dlfcn.h>
#include <errno.h>
#include <stdlib.h>
#include <string.h>
#include <sys/mman.h>
#include <sys/types.h>

static int failing(int fd, int flags) {
  const char *e = getenv("VERIF_MMAP_FAIL");
  return e && e[0] == '1' && fd >= 0 && !(flags & MAP_ANONYMOUS);
}

void *mmap(void *addr, size_t len, int prot, int flags, int fd, off_t off) {
  static void *(*real)(void *, size_t, int, int, int, off_t);
  if (!real) real = dlsym(RTLD_NEXT, "mmap");
  if (failing(fd, flags)) { errno = ENODEV; return MAP_FAILED; }
  return real(addr, len, prot, flags, fd, off);
}

void *mmap64(void *addr, size_t len, int prot, int flags, int fd, off64_t off) {
  static void *(*real)(void *, size_t, int, int, int, off64_t);
  if (!real) real = dlsym(RTLD_NEXT, "mmap64");
  if (failing(fd, flags)) { errno = ENODEV; return MAP_FAILED; }
  return real(addr, len, prot, flags, fd, off);
}
