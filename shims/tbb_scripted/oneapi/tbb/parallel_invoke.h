// Stand-in for <oneapi/tbb/parallel_invoke.h> (oneTBB is not installed in this sandbox).
// parallel_invoke hands both callables, type-erased, to the harness, which runs them left-first,
// right-first or on two controlled threads. The argument plumbing of c/blake3_tbb.cpp is unchanged.
#pragma once
#ifndef TBB_USE_EXCEPTIONS
#define TBB_USE_EXCEPTIONS 0
#endif
extern "C" void verif_parallel_invoke(void (*left)(void *), void *left_ctx, void (*right)(void *), void *right_ctx);
namespace oneapi {
namespace tbb {
template <typename F0, typename F1> void parallel_invoke(const F0 &f0, const F1 &f1) {
  verif_parallel_invoke([](void *c) { (*static_cast<const F0 *>(c))(); }, const_cast<F0 *>(&f0),
                        [](void *c) { (*static_cast<const F1 *>(c))(); }, const_cast<F1 *>(&f1));
}
} // namespace tbb
} // namespace oneapi
