//! b3spec — an independent executable model of the BLAKE3 specification.
//!
//! Written from the BLAKE3 paper (sections 2.1-2.6), deliberately *unlike* the
//! implementations under test: the IV is computed, the message schedule is the
//! single permutation applied between rounds, the tree is the paper's recursive
//! top-down definition on the whole input, there is no stack, no laziness and
//! no SIMD. Nothing in here is copied from /repo.

use std::collections::HashMap;

pub const CHUNK_START: u32 = 1;
pub const CHUNK_END: u32 = 2;
pub const PARENT: u32 = 4;
pub const ROOT: u32 = 8;
pub const KEYED_HASH: u32 = 16;
pub const DERIVE_KEY_CONTEXT: u32 = 32;
pub const DERIVE_KEY_MATERIAL: u32 = 64;

/// floor(sqrt(n)) for u128, by bisection.
fn isqrt(n: u128) -> u128 {
    let (mut lo, mut hi) = (0u128, 1u128 << 64);
    while lo + 1 < hi {
        let mid = (lo + hi) / 2;
        if mid * mid <= n {
            lo = mid;
        } else {
            hi = mid;
        }
    }
    lo
}

/// The IV: first 32 bits of the fractional parts of the square roots of the
/// first eight primes (the SHA-256 IV), computed rather than copied.
pub fn iv() -> [u32; 8] {
    static CACHE: std::sync::OnceLock<[u32; 8]> = std::sync::OnceLock::new();
    *CACHE.get_or_init(compute_iv)
}

fn compute_iv() -> [u32; 8] {
    let primes = [2u128, 3, 5, 7, 11, 13, 17, 19];
    let mut out = [0u32; 8];
    for (i, p) in primes.iter().enumerate() {
        // floor(sqrt(p) * 2^32) = floor(sqrt(p * 2^64)); low 32 bits are the fraction.
        let r = isqrt(p << 64);
        out[i] = (r & 0xffff_ffff) as u32;
    }
    out
}

const PERM: [usize; 16] = [2, 6, 3, 10, 7, 0, 4, 13, 1, 11, 12, 5, 9, 14, 15, 8];

fn g(v: &mut [u32; 16], a: usize, b: usize, c: usize, d: usize, x: u32, y: u32) {
    v[a] = v[a].wrapping_add(v[b]).wrapping_add(x);
    v[d] = (v[d] ^ v[a]).rotate_right(16);
    v[c] = v[c].wrapping_add(v[d]);
    v[b] = (v[b] ^ v[c]).rotate_right(12);
    v[a] = v[a].wrapping_add(v[b]).wrapping_add(y);
    v[d] = (v[d] ^ v[a]).rotate_right(8);
    v[c] = v[c].wrapping_add(v[d]);
    v[b] = (v[b] ^ v[c]).rotate_right(7);
}

/// The compression function of section 2.2: returns all 16 output words.
pub fn compress(h: &[u32; 8], m: &[u32; 16], t: u64, b: u32, d: u32) -> [u32; 16] {
    let ivw = iv();
    let mut v = [
        h[0], h[1], h[2], h[3], h[4], h[5], h[6], h[7], ivw[0], ivw[1], ivw[2], ivw[3],
        t as u32,
        (t >> 32) as u32,
        b,
        d,
    ];
    let mut m = *m;
    for round in 0..7 {
        g(&mut v, 0, 4, 8, 12, m[0], m[1]);
        g(&mut v, 1, 5, 9, 13, m[2], m[3]);
        g(&mut v, 2, 6, 10, 14, m[4], m[5]);
        g(&mut v, 3, 7, 11, 15, m[6], m[7]);
        g(&mut v, 0, 5, 10, 15, m[8], m[9]);
        g(&mut v, 1, 6, 11, 12, m[10], m[11]);
        g(&mut v, 2, 7, 8, 13, m[12], m[13]);
        g(&mut v, 3, 4, 9, 14, m[14], m[15]);
        if round < 6 {
            let mut p = [0u32; 16];
            for i in 0..16 {
                p[i] = m[PERM[i]];
            }
            m = p;
        }
    }
    let mut out = [0u32; 16];
    for i in 0..8 {
        out[i] = v[i] ^ v[i + 8];
        out[i + 8] = v[i + 8] ^ h[i];
    }
    out
}

pub fn words16(block: &[u8; 64]) -> [u32; 16] {
    let mut w = [0u32; 16];
    for i in 0..16 {
        w[i] = u32::from_le_bytes([block[4 * i], block[4 * i + 1], block[4 * i + 2], block[4 * i + 3]]);
    }
    w
}

pub fn words8(b: &[u8; 32]) -> [u32; 8] {
    let mut w = [0u32; 8];
    for i in 0..8 {
        w[i] = u32::from_le_bytes([b[4 * i], b[4 * i + 1], b[4 * i + 2], b[4 * i + 3]]);
    }
    w
}

pub fn bytes32(w: &[u32]) -> [u8; 32] {
    let mut o = [0u8; 32];
    for i in 0..8 {
        o[4 * i..4 * i + 4].copy_from_slice(&w[i].to_le_bytes());
    }
    o
}

pub fn bytes64(w: &[u32; 16]) -> [u8; 64] {
    let mut o = [0u8; 64];
    for i in 0..16 {
        o[4 * i..4 * i + 4].copy_from_slice(&w[i].to_le_bytes());
    }
    o
}

/// Byte-level form of the compression function, as the kernels expose it.
pub fn compress_bytes(cv: &[u32; 8], block: &[u8; 64], block_len: u8, counter: u64, flags: u8) -> [u8; 64] {
    bytes64(&compress(cv, &words16(block), counter, block_len as u32, flags as u32))
}

/// A hashing mode: the key words fed to every node and the mode flag.
#[derive(Clone, Copy, Debug, PartialEq, Eq, Hash)]
pub struct Mode {
    pub key: [u32; 8],
    pub flags: u32,
}

impl Mode {
    pub fn hash() -> Mode {
        Mode { key: iv(), flags: 0 }
    }
    pub fn keyed(key: &[u8; 32]) -> Mode {
        Mode { key: words8(key), flags: KEYED_HASH }
    }
    /// derive_key: the context string is hashed with DERIVE_KEY_CONTEXT and the
    /// first 32 output bytes key the material pass.
    pub fn derive(context: &[u8]) -> Mode {
        let cx = Mode { key: iv(), flags: DERIVE_KEY_CONTEXT };
        let ck = node(&cx, context, 0).root_bytes(0, 32);
        let mut k = [0u8; 32];
        k.copy_from_slice(&ck);
        Mode { key: words8(&k), flags: DERIVE_KEY_MATERIAL }
    }
    pub fn derive_from_context_key(ck: &[u8; 32]) -> Mode {
        Mode { key: words8(ck), flags: DERIVE_KEY_MATERIAL }
    }
    pub fn context_key(context: &[u8]) -> [u8; 32] {
        let cx = Mode { key: iv(), flags: DERIVE_KEY_CONTEXT };
        let ck = node(&cx, context, 0).root_bytes(0, 32);
        let mut k = [0u8; 32];
        k.copy_from_slice(&ck);
        k
    }
}

/// A chunk or parent node *before* its last compression: from it come either
/// the chaining value or (with ROOT) the output blocks.
#[derive(Clone, Copy, Debug, PartialEq, Eq)]
pub struct Node {
    pub cv: [u32; 8],
    pub block: [u8; 64],
    pub block_len: u32,
    pub counter: u64,
    pub flags: u32,
}

impl Node {
    pub fn chaining_value(&self) -> [u8; 32] {
        let o = compress(&self.cv, &words16(&self.block), self.counter, self.block_len, self.flags);
        bytes32(&o[..8])
    }
    /// Output block k of this node taken as the root.
    pub fn root_block(&self, k: u64) -> [u8; 64] {
        bytes64(&compress(&self.cv, &words16(&self.block), k, self.block_len, self.flags | ROOT))
    }
    /// S[p .. p+n] of the output stream of this node taken as the root.
    pub fn root_bytes(&self, p: u64, n: usize) -> Vec<u8> {
        let mut out = Vec::with_capacity(n);
        let mut pos = p as u128;
        let end = p as u128 + n as u128;
        while pos < end {
            let k = (pos / 64) as u64;
            let blk = self.root_block(k);
            let off = (pos % 64) as usize;
            let take = core::cmp::min(64 - off as u128, end - pos) as usize;
            out.extend_from_slice(&blk[off..off + take]);
            pos += take as u128;
        }
        out
    }
}

/// The chunk node for `bytes` (0..=1024 bytes) with chunk index `index`.
pub fn chunk_node(mode: &Mode, bytes: &[u8], index: u64) -> Node {
    assert!(bytes.len() <= 1024);
    let nblocks = if bytes.is_empty() { 1 } else { (bytes.len() + 63) / 64 };
    let mut cv = mode.key;
    for i in 0..nblocks {
        let lo = i * 64;
        let hi = core::cmp::min(lo + 64, bytes.len());
        let mut block = [0u8; 64];
        block[..hi - lo].copy_from_slice(&bytes[lo..hi]);
        let mut flags = mode.flags;
        if i == 0 {
            flags |= CHUNK_START;
        }
        if i == nblocks - 1 {
            flags |= CHUNK_END;
            return Node { cv, block, block_len: (hi - lo) as u32, counter: index, flags };
        }
        let o = compress(&cv, &words16(&block), index, 64, flags);
        cv.copy_from_slice(&o[..8]);
    }
    unreachable!()
}

pub fn parent_node(mode: &Mode, left: &[u8; 32], right: &[u8; 32]) -> Node {
    let mut block = [0u8; 64];
    block[..32].copy_from_slice(left);
    block[32..].copy_from_slice(right);
    Node { cv: mode.key, block, block_len: 64, counter: 0, flags: mode.flags | PARENT }
}

/// Number of bytes in the left subtree of an n-byte (n > 1024) subtree:
/// 1024 * 2^floor(log2((n-1)/1024)), the largest power-of-two number of chunks
/// that leaves at least one byte on the right.
pub fn left_len(n: u64) -> u64 {
    assert!(n > 1024);
    let chunks_minus = (n - 1) / 1024; // >= 1
    let mut p = 1u64;
    while p <= chunks_minus / 2 {
        p *= 2;
    }
    // p = largest power of two <= chunks_minus
    p * 1024
}

/// Largest power of two strictly below n, written as a search (for the
/// left_subtree_len helper property, n in (1024, 2^64-1]).
pub fn largest_pow2_below(n: u64) -> u64 {
    assert!(n > 1);
    let mut p = 1u64 << 63;
    while p >= n {
        p >>= 1;
    }
    p
}

/// Maximum number of bytes of a subtree that starts at chunk-aligned byte
/// offset `offset` > 0: 1024 * 2^tz(offset/1024).
pub fn max_subtree_len(offset: u64) -> Option<u64> {
    if offset == 0 {
        return None;
    }
    assert!(offset % 1024 == 0);
    let c = offset / 1024;
    let mut tz = 0;
    while (c >> tz) & 1 == 0 {
        tz += 1;
    }
    Some(1024u64 << tz)
}

/// The un-finalised node at the top of the subtree over `bytes`, whose first
/// chunk has index `first_chunk`. Straight recursion; no memo.
pub fn node(mode: &Mode, bytes: &[u8], first_chunk: u64) -> Node {
    if bytes.len() <= 1024 {
        return chunk_node(mode, bytes, first_chunk);
    }
    let l = left_len(bytes.len() as u64) as usize;
    let left = node(mode, &bytes[..l], first_chunk).chaining_value();
    let right = node(mode, &bytes[l..], first_chunk + (l / 1024) as u64).chaining_value();
    parent_node(mode, &left, &right)
}

/// Convenience: S[p..p+n] for the whole input `bytes` in `mode`.
pub fn xof(mode: &Mode, bytes: &[u8], p: u64, n: usize) -> Vec<u8> {
    node(mode, bytes, 0).root_bytes(p, n)
}

pub fn hash32(mode: &Mode, bytes: &[u8]) -> [u8; 32] {
    let v = xof(mode, bytes, 0, 32);
    let mut o = [0u8; 32];
    o.copy_from_slice(&v);
    o
}

/// A memoising oracle over one fixed content stream in one mode: answers
/// `node(lo..hi)` for any sub-range, caching the chaining values of *complete*
/// subtrees (aligned power-of-two runs of whole chunks), so that sweeping all
/// prefixes of the stream costs O(N log N) compressions in total. The memo is
/// only an optimisation: `node_nomemo` recomputes from scratch.
pub struct StreamOracle {
    pub mode: Mode,
    pub data: Vec<u8>,
    memo: HashMap<(u64, usize, usize), [u8; 32]>,
    pub memo_hits: u64,
}

impl StreamOracle {
    pub fn new(mode: Mode, data: Vec<u8>) -> Self {
        StreamOracle { mode, data, memo: HashMap::new(), memo_hits: 0 }
    }

    fn cv_range(&mut self, lo: usize, hi: usize, first_chunk: u64) -> [u8; 32] {
        let n = hi - lo;
        let complete = n % 1024 == 0 && (n / 1024).is_power_of_two();
        if complete {
            if let Some(v) = self.memo.get(&(first_chunk, lo, hi)) {
                self.memo_hits += 1;
                return *v;
            }
        }
        let v = self.node_range(lo, hi, first_chunk).chaining_value();
        if complete {
            self.memo.insert((first_chunk, lo, hi), v);
        }
        v
    }

    /// Node over data[lo..hi] whose first chunk has index `first_chunk`.
    pub fn node_range(&mut self, lo: usize, hi: usize, first_chunk: u64) -> Node {
        let n = hi - lo;
        if n <= 1024 {
            return chunk_node(&self.mode, &self.data[lo..hi], first_chunk);
        }
        let l = left_len(n as u64) as usize;
        let left = self.cv_range(lo, lo + l, first_chunk);
        let right = self.cv_range(lo + l, hi, first_chunk + (l / 1024) as u64);
        parent_node(&self.mode, &left, &right)
    }

    /// Root node of the prefix data[..n].
    pub fn prefix(&mut self, n: usize) -> Node {
        self.node_range(0, n, 0)
    }

    pub fn node_nomemo(&self, lo: usize, hi: usize, first_chunk: u64) -> Node {
        node(&self.mode, &self.data[lo..hi], first_chunk)
    }
}

/// Spec node of a long input laid out as sixteen aligned subtrees of `sub` bytes (a power of two)
/// followed by a tail of 1..=sub bytes - so that the root's left child is the complete 16*sub
/// subtree. The sixteen subtree chaining values are computed on threads by the recursive
/// definition (`node`) and merged pairwise: the same tree, evaluated in parallel. Checked against
/// `node` itself at a small scale by `self_check`.
pub fn node_parallel16(mode: &Mode, data: &[u8], sub: usize) -> Node {
    assert!(sub.is_power_of_two() && sub >= 1024 && data.len() > 16 * sub && data.len() - 16 * sub <= sub);
    let mut cvs: Vec<[u8; 32]> = std::thread::scope(|s| {
        let hs: Vec<_> = (0..16).map(|i| s.spawn(move || node(mode, &data[i * sub..(i + 1) * sub], (i * sub / 1024) as u64).chaining_value())).collect();
        hs.into_iter().map(|h| h.join().expect("spec thread")).collect()
    });
    while cvs.len() > 1 {
        cvs = cvs.chunks(2).map(|p| parent_node(mode, &p[0], &p[1]).chaining_value()).collect();
    }
    let right = node(mode, &data[16 * sub..], (16 * sub / 1024) as u64).chaining_value();
    parent_node(mode, &cvs[0], &right)
}

/// Self-anchoring against constants that come from outside the repository.
/// Returns Err(description) on any mismatch.
pub fn self_check() -> Result<(), String> {
    // SHA-256 initial hash values (FIPS 180-4), which BLAKE3 reuses as its IV.
    let sha256_iv = [
        0x6a09e667u32, 0xbb67ae85, 0x3c6ef372, 0xa54ff53a, 0x510e527f, 0x9b05688c, 0x1f83d9ab, 0x5be0cd19,
    ];
    if iv() != sha256_iv {
        return Err(format!("computed IV {:x?} != SHA-256 IV", iv()));
    }
    let hex = |b: &[u8]| b.iter().map(|x| format!("{:02x}", x)).collect::<String>();
    // Published BLAKE3 digests (README / b3sum of the empty input and of "abc").
    let empty = hex(&hash32(&Mode::hash(), b""));
    if empty != "af1349b9f5f9a1a6a0404dea36dcc9499bcb25c9adc112b7cc9a93cae41f3262" {
        return Err(format!("empty-input digest mismatch: {}", empty));
    }
    let abc = hex(&hash32(&Mode::hash(), b"abc"));
    if abc != "6437b3ac38465133ffb63b75273a8db548c558465d79db03fd359c6cd5bd9d85" {
        return Err(format!("abc digest mismatch: {}", abc));
    }
    // The permutation must be a permutation.
    let mut seen = [false; 16];
    for &i in PERM.iter() {
        seen[i] = true;
    }
    if seen.iter().any(|s| !s) {
        return Err("message permutation is not a permutation".into());
    }
    // the parallel evaluation of the tree is the same function as the recursive definition
    let data: Vec<u8> = (0..16 * 4096 + 2000).map(|i| (i % 251) as u8).collect();
    for m in [Mode::hash(), Mode::keyed(&[7u8; 32])] {
        if node_parallel16(&m, &data, 4096) != node(&m, &data, 0) {
            return Err("node_parallel16 differs from node".into());
        }
    }
    Ok(())
}

#[cfg(test)]
mod tests {
    use super::*;
    #[test]
    fn anchors() {
        self_check().unwrap();
    }
    #[test]
    fn left_len_examples() {
        assert_eq!(left_len(1025), 1024);
        assert_eq!(left_len(2048), 1024);
        assert_eq!(left_len(2049), 2048);
        assert_eq!(left_len(4096), 2048);
        assert_eq!(left_len(4097), 4096);
        assert_eq!(largest_pow2_below(u64::MAX), 1 << 63);
        assert_eq!(largest_pow2_below(1025), 1024);
        assert_eq!(largest_pow2_below(2048), 1024);
    }
    #[test]
    fn memo_equals_nomemo() {
        let data: Vec<u8> = (0..20000u32).map(|i| (i % 251) as u8).collect();
        let mut o = StreamOracle::new(Mode::hash(), data.clone());
        for n in [0usize, 1, 1024, 1025, 2048, 2049, 5000, 8192, 8193, 20000] {
            assert_eq!(o.prefix(n), node(&Mode::hash(), &data[..n], 0));
        }
    }
}
