//! Anchors the Rust oracle: self-check against outside constants, then every line of the given
//! anchor files (`mode len seek outlen hex`, stream A input, upstream's test key and context).
use b3spec::*;
fn main() {
    if let Err(e) = self_check() {
        eprintln!("ORACLE-ANCHOR-FAILED: {}", e);
        std::process::exit(2);
    }
    let key: &[u8; 32] = b"whats the Elvish word for friend";
    let ctx = b"BLAKE3 2019-12-27 16:29:52 test vectors context";
    let modes = [("hash", Mode::hash()), ("keyed", Mode::keyed(key)), ("derive", Mode::derive(ctx))];
    let mut total = 0usize;
    for path in std::env::args().skip(1) {
        let text = std::fs::read_to_string(&path).unwrap_or_else(|e| {
            eprintln!("ORACLE-ANCHOR-FAILED: cannot read {}: {}", path, e);
            std::process::exit(2)
        });
        for line in text.lines() {
            if line.starts_with('#') || line.trim().is_empty() {
                continue;
            }
            let f: Vec<&str> = line.split_whitespace().collect();
            let mode = modes.iter().find(|m| m.0 == f[0]).expect("mode").1;
            let len: usize = f[1].parse().unwrap();
            let seek: u64 = f[2].parse().unwrap();
            let outlen: usize = f[3].parse().unwrap();
            let data: Vec<u8> = (0..len).map(|i| (i % 251) as u8).collect();
            let got: String = xof(&mode, &data, seek, outlen).iter().map(|b| format!("{:02x}", b)).collect();
            if got != f[4] {
                eprintln!("ORACLE-ANCHOR-FAILED: {} line `{} {} {} {}`: b3spec gives {}", path, f[0], f[1], f[2], f[3], got);
                std::process::exit(2);
            }
            total += 1;
        }
    }
    println!("oracle anchored: {} vectors agree", total);
}
