#!/usr/bin/env python3
"""Emit `mode len seek outlen hex` lines computed by the Python model, for cross-checking b3spec."""
import sys, os
sys.path.insert(0, os.path.dirname(os.path.abspath(__file__)))
import b3spec
KEY = b"whats the Elvish word for friend"
CTX = b"BLAKE3 2019-12-27 16:29:52 test vectors context"
lens = [0, 1, 2, 63, 64, 65, 127, 128, 129, 959, 960, 961, 1023, 1024, 1025, 1087, 1088, 1089, 2047, 2048, 2049,
        3071, 3072, 3073, 4095, 4096, 4097, 5120, 5121, 6143, 6144, 6145, 7168, 7169, 8191, 8192, 8193, 9216,
        9217, 15360, 15361, 16383, 16384, 16385, 17408, 17409, 31744, 32768, 32769, 33792, 33793, 65535, 65536,
        65537, 66560, 102400, 131072, 131073]
seeks = [(0, 131), (1, 64), (63, 2), (64, 64), (65, 130), (64 * 2**32 - 1, 66), (2**64 - 1 - 70, 70)]
data = b3spec.paint(max(lens))
for n in lens:
    for mode, kw in (("hash", {}), ("keyed", {"key": KEY}), ("derive", {"context": CTX})):
        sk = seeks if n in (0, 65, 1025, 4097) else seeks[:1]
        node_out = None
        for seek, outlen in sk:
            print(mode, n, seek, outlen, b3spec.blake3(data[:n], outlen, seek=seek, **kw).hex())
