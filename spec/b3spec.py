#!/usr/bin/env python3
"""Second, independently written BLAKE3 model (Python), used only to anchor the
Rust oracle `b3spec`. Structure follows section 5.1.2 of the paper: chunks are
processed left to right and chaining values are merged on a stack according to
the number of trailing zero bits of the chunk count. Nothing is copied from
/repo."""
import math, struct, sys, json

M32 = 0xFFFFFFFF
CHUNK_START, CHUNK_END, PARENT, ROOT, KEYED, DK_CTX, DK_MAT = 1, 2, 4, 8, 16, 32, 64


def _iv():
    out = []
    for p in (2, 3, 5, 7, 11, 13, 17, 19):
        out.append(math.isqrt(p << 64) & M32)
    return out


IV = _iv()
SIGMA = [2, 6, 3, 10, 7, 0, 4, 13, 1, 11, 12, 5, 9, 14, 15, 8]


def _ror(x, n):
    return ((x >> n) | (x << (32 - n))) & M32


def _g(v, a, b, c, d, x, y):
    v[a] = (v[a] + v[b] + x) & M32
    v[d] = _ror(v[d] ^ v[a], 16)
    v[c] = (v[c] + v[d]) & M32
    v[b] = _ror(v[b] ^ v[c], 12)
    v[a] = (v[a] + v[b] + y) & M32
    v[d] = _ror(v[d] ^ v[a], 8)
    v[c] = (v[c] + v[d]) & M32
    v[b] = _ror(v[b] ^ v[c], 7)


def compress(h, block, t, blen, flags):
    m = list(struct.unpack("<16I", block))
    v = list(h) + IV[:4] + [t & M32, (t >> 32) & M32, blen, flags]
    for r in range(7):
        _g(v, 0, 4, 8, 12, m[0], m[1]); _g(v, 1, 5, 9, 13, m[2], m[3])
        _g(v, 2, 6, 10, 14, m[4], m[5]); _g(v, 3, 7, 11, 15, m[6], m[7])
        _g(v, 0, 5, 10, 15, m[8], m[9]); _g(v, 1, 6, 11, 12, m[10], m[11])
        _g(v, 2, 7, 8, 13, m[12], m[13]); _g(v, 3, 4, 9, 14, m[14], m[15])
        m = [m[i] for i in SIGMA]
    return [v[i] ^ v[i + 8] for i in range(8)] + [v[i + 8] ^ h[i] for i in range(8)]


def _chunk(key, flags, data, idx):
    """returns the (h, block, t, blen, flags) tuple of the last block of a chunk"""
    blocks = [data[i:i + 64] for i in range(0, len(data), 64)] or [b""]
    h = list(key)
    for i, b in enumerate(blocks):
        f = flags | (CHUNK_START if i == 0 else 0) | (CHUNK_END if i == len(blocks) - 1 else 0)
        padded = b + bytes(64 - len(b))
        if i == len(blocks) - 1:
            return (h, padded, idx, len(b), f)
        h = compress(h, padded, idx, 64, f)[:8]


def _cv(node):
    return struct.pack("<8I", *compress(*node)[:8])


def _parent(key, flags, l, r):
    return (list(key), l + r, 0, 64, flags | PARENT)


def root_node(key, flags, data):
    chunks = [data[i:i + 1024] for i in range(0, len(data), 1024)] or [b""]
    stack = []
    for i, c in enumerate(chunks[:-1]):
        cv = _cv(_chunk(key, flags, c, i))
        total = i + 1
        while total & 1 == 0:
            cv = _cv(_parent(key, flags, stack.pop(), cv))
            total >>= 1
        stack.append(cv)
    node = _chunk(key, flags, chunks[-1], len(chunks) - 1)
    while stack:
        node = _parent(key, flags, stack.pop(), _cv(node))
    return node


def output(node, n, seek=0):
    h, block, _, blen, f = node
    out = b""
    k = seek // 64
    skip = seek % 64
    while len(out) < n + skip:
        out += struct.pack("<16I", *compress(h, block, k, blen, f | ROOT))
        k += 1
    return out[skip:skip + n]


def blake3(data, n=32, key=None, context=None, seek=0):
    if key is not None:
        k, f = list(struct.unpack("<8I", key)), KEYED
    elif context is not None:
        ck = output(root_node(IV, DK_CTX, context), 32)
        k, f = list(struct.unpack("<8I", ck)), DK_MAT
    else:
        k, f = IV, 0
    return output(root_node(k, f, data), n, seek)


def paint(n):
    return bytes(i % 251 for i in range(n))


if __name__ == "__main__":
    # usage: b3spec.py <mode: hash|keyed|derive> <len> <outlen> [seek]   (stream A input,
    # upstream's test key / context) -> hex
    mode, ln, outlen = sys.argv[1], int(sys.argv[2]), int(sys.argv[3])
    seek = int(sys.argv[4]) if len(sys.argv) > 4 else 0
    key = b"whats the Elvish word for friend"
    ctx = b"BLAKE3 2019-12-27 16:29:52 test vectors context"
    kw = {}
    if mode == "keyed":
        kw["key"] = key
    elif mode == "derive":
        kw["context"] = ctx
    print(blake3(paint(ln), outlen, seek=seek, **kw).hex())
