#!/usr/bin/env python3
"""Regenerates /verif/MANIFEST.json from runner/manifest_src.py (single source of truth)."""
import json, os, sys
sys.path.insert(0, os.path.dirname(os.path.abspath(__file__)))
from manifest_src import CHECKS, NOT_APPLICABLE, HOOK_COMMITS, ENGINES_DOC, NOTES
VERIF = os.path.dirname(os.path.dirname(os.path.abspath(__file__)))
ids = ["C%02d" % i for i in range(1, 19)]
checks = []
for pid in ids:
    if pid in CHECKS:
        c = CHECKS[pid]
        checks.append({
            "property_id": pid,
            "quick_cmd": "./check %s --tier quick" % pid,
            "thorough_cmd": "./check %s --tier thorough" % pid,
            "evidence_file": "/verif/evidence/%s.json" % pid,
            "replay_cmd_template": "./check %s --replay {path}" % pid,
            "engine": c["engine"],
            "level_claimed": {"category": c["category"], "text": c["text"], "design_ref": c["design_ref"]},
            "level_note": c["note"],
            "technique": c["technique"],
        })
na = [{"property_id": p, "reason": NOT_APPLICABLE[p]} for p in ids if p not in CHECKS]
m = {
    "version": 1,
    "setup_cmd": "./setup.sh",
    "hooks": {
        "guard": "blake3_team_blake3_verif",
        "enable": "Rust: RUSTFLAGS='--cfg blake3_team_blake3_verif' (set by ./check for every engine build); C: -DBLAKE3_TEAM_BLAKE3_VERIF (set by the clib/sched build scripts)",
        "baseline_off_cmd": "cd /repo && cargo test --workspace --no-fail-fast --offline",
        "source_commits": HOOK_COMMITS,
        "add_only": True,
    },
    "engines": ENGINES_DOC,
    "checks": checks,
    "not_applicable": na,
    "notes": NOTES,
}
with open(os.path.join(VERIF, "MANIFEST.json"), "w") as f:
    json.dump(m, f, indent=1)
    f.write("\n")
try:
    import jsonschema
    jsonschema.validate(m, json.load(open("/root/.vp/MANIFEST.schema.json")))
    print("MANIFEST.json valid;", len(checks), "checks,", len(na), "not_applicable")
except ImportError:
    print("MANIFEST.json written (jsonschema not available to validate)")
