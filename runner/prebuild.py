#!/usr/bin/env python3
import os, sys
sys.path.insert(0, os.path.dirname(os.path.abspath(__file__)))
import vrunner
from plans import PLANS
try:
    print(vrunner.anchor_oracle())
    done = set()
    for pid, plan in sorted(PLANS.items()):
        for step in plan["runs"]("quick"):
            key = (step["engine"], step["cfg"])
            if key not in done:
                done.add(key)
                vrunner.build_engine(*key)
    print("setup ok: %d engine builds" % len(done))
except vrunner.Machinery as e:
    print("SETUP-FAILED: %s" % e)
    sys.exit(2)
