#!/bin/sh
# usage: trymut.sh <patch.diff> <check id>...   — apply a seeded change to /repo, run checks, always revert
patch="$1"; shift
cd /repo || exit 2
if ! git diff --quiet; then echo "repo dirty"; exit 2; fi
git apply "$patch" || { echo "patch does not apply"; exit 2; }
for id in "$@"; do
  (cd /verif && ./check "$id" 2>/dev/null | grep -E "^(VIOLATION|OK|KNOWN|MACHINERY)" | cut -c1-260 | head -4; echo "exit=$?") 
done
git -C /repo checkout -- . 
git -C /repo status --short | head -3
