"""Runner: anchor the oracle, build engines against /repo's working tree, run them, filter known
findings, confirm each violation by replaying it twice, write evidence, decide the exit status."""
import hashlib, json, os, re, shutil, subprocess, sys, time

VERIF = os.path.dirname(os.path.dirname(os.path.abspath(__file__)))
OUT = os.path.join(VERIF, "out")
TARGET = os.path.join(VERIF, "target")
EVIDENCE = os.path.join(VERIF, "evidence")
GUARD = "blake3_team_blake3_verif"

sys.path.insert(0, os.path.dirname(os.path.abspath(__file__)))
from plans import PLANS, ENGINES  # noqa: E402


class Machinery(Exception):
    pass


LENIENT = set()


def log(msg):
    print("[check] " + msg, file=sys.stderr, flush=True)


def base_env():
    env = dict(os.environ)
    env["CARGO_NET_OFFLINE"] = "true"
    env["RUSTFLAGS"] = "--cfg " + GUARD
    env.pop("RUSTDOCFLAGS", None)
    env.pop("CARGO_BUILD_RUSTFLAGS", None)
    env.pop("CARGO_ENCODED_RUSTFLAGS", None)
    return env


def run_cmd(cmd, cwd=None, env=None, timeout=None, capture=True):
    p = subprocess.run(cmd, cwd=cwd, env=env, timeout=timeout, stdout=subprocess.PIPE if capture else None,
                       stderr=subprocess.STDOUT if capture else None, text=True)
    return p.returncode, (p.stdout or "")


def file_hash(paths):
    h = hashlib.sha256()
    for p in paths:
        with open(p, "rb") as f:
            h.update(f.read())
    return h.hexdigest()


def anchor_oracle():
    """Build b3spec's anchor binary and check both independent models and the published vectors."""
    os.makedirs(OUT, exist_ok=True)
    spec_dir = os.path.join(VERIF, "spec", "b3spec")
    env = base_env()
    env["CARGO_TARGET_DIR"] = os.path.join(TARGET, "b3spec")
    env["RUSTFLAGS"] = ""
    rc, out = run_cmd(["cargo", "build", "--release", "--offline"], cwd=spec_dir, env=env)
    if rc != 0:
        raise Machinery("b3spec does not build:\n" + out[-3000:])
    py = os.path.join(VERIF, "spec", "b3spec.py")
    gen = os.path.join(VERIF, "spec", "gen_py_anchors.py")
    stamp = file_hash([py, gen])
    pyanch = os.path.join(OUT, "pyanchors-%s.txt" % stamp[:16])
    if not os.path.exists(pyanch):
        rc, out = run_cmd([sys.executable, gen], cwd=VERIF)
        if rc != 0:
            raise Machinery("python model failed:\n" + out[-3000:])
        with open(pyanch + ".tmp", "w") as f:
            f.write(out)
        os.replace(pyanch + ".tmp", pyanch)
    binp = os.path.join(TARGET, "b3spec", "release", "b3spec-anchor")
    rc, out = run_cmd([binp, os.path.join(VERIF, "spec", "anchors.txt"), pyanch])
    if rc != 0:
        raise Machinery("oracle anchor failed:\n" + out[-3000:])
    return out.strip()


def build_engine(engine, cfg):
    e = ENGINES[engine]
    feats = e["configs"][cfg]
    env = base_env()
    tdir = os.path.join(TARGET, "%s-%s" % (engine, cfg))
    env["CARGO_TARGET_DIR"] = tdir
    for k, v in e.get("env", {}).items():
        env[k] = v
    profile = "release"
    for f in feats:
        if f.startswith("--profile="):
            profile = f.split("=", 1)[1]
    cmd = ["cargo", "build", "--offline"] + ([] if profile != "release" else ["--release"]) + feats
    t0 = time.time()
    if e.get("pre"):
        # e.g. the schedule explorer's instrumented copy of the crate, regenerated from /repo's working tree
        rc, out = run_cmd([sys.executable, os.path.join(VERIF, e["pre"])], cwd=VERIF)
        if rc != 0:
            raise Machinery("pre-build step %s failed:\n%s" % (e["pre"], out[-3000:]))
    rc, out = run_cmd(cmd, cwd=os.path.join(VERIF, e["dir"]), env=env)
    if rc != 0 and "verif_hooks.rs" in out and GUARD in env.get("RUSTFLAGS", ""):
        # The state-copy hook destructures every field on purpose; a tree that added a field to
        # Hasher / ChunkState / Output / OutputReader no longer compiles it. Fall back to the lenient
        # variant (unknown fields ignored) in its own target directory, and say so.
        env["RUSTFLAGS"] = env["RUSTFLAGS"] + " --cfg " + GUARD + "_lenient"
        tdir = tdir + "-lenient"
        env["CARGO_TARGET_DIR"] = tdir
        rc, out = run_cmd(cmd, cwd=os.path.join(VERIF, e["dir"]), env=env)
        if rc == 0:
            LENIENT.add("%s/%s" % (engine, cfg))
            log("built %s/%s with the LENIENT state-copy hook (the strict one no longer compiles)" % (engine, cfg))
    if rc != 0:
        raise Machinery("build of %s/%s failed:\n%s" % (engine, cfg, out[-6000:]))
    log("built %s/%s in %.1fs" % (engine, cfg, time.time() - t0))
    return os.path.join(tdir, profile, e["bin"])


def build_shim(name):
    """Small C helpers (LD_PRELOAD interposers) built into /verif/target/shims."""
    d = os.path.join(TARGET, "shims")
    os.makedirs(d, exist_ok=True)
    src = os.path.join(VERIF, "shims", name + ".c")
    so = os.path.join(d, name + ".so")
    if not os.path.exists(so) or os.path.getmtime(so) < os.path.getmtime(src):
        rc, out = run_cmd(["gcc", "-shared", "-fPIC", "-O1", "-o", so, src, "-ldl"])
        if rc != 0:
            raise Machinery("shim %s does not build:\n%s" % (name, out))
    return so


def step_env(step):
    env = dict(step.get("env") or {})
    for shim, var in (step.get("shims") or {}).items():
        env[var] = build_shim(shim)
    return env


def run_engine(binp, prop, tier, seed, report, extra, timeout, env_extra=None):
    cmd = [binp, "--prop", prop, "--tier", tier, "--seed", str(seed), "--report", report] + extra
    env = base_env()
    env.update(env_extra or {})
    if os.path.exists(report):
        os.remove(report)
    t0 = time.time()
    try:
        rc, out = run_cmd(cmd, cwd=VERIF, env=env, timeout=timeout)
    except subprocess.TimeoutExpired:
        raise Machinery("engine timed out after %ss: %s" % (timeout, " ".join(cmd)))
    if rc != 0 or not os.path.exists(report):
        raise Machinery("engine failed (exit %s): %s\n%s" % (rc, " ".join(cmd), out[-6000:]))
    log("ran %s in %.1fs" % (" ".join(cmd[:1] + cmd[1:3] + extra), time.time() - t0))
    with open(report) as f:
        return json.load(f)


def load_known():
    findings, fixed = [], []
    path = os.path.join(VERIF, "known_findings.txt")
    if os.path.exists(path):
        for line in open(path):
            line = line.strip()
            m = re.match(r"finding:\s+property=(\S+)\s+key=(\S+)\s*(.*)", line)
            if m:
                findings.append((m.group(1), m.group(2), m.group(3)))
            m = re.match(r"fixed:\s+property=(\S+)\s+(\S+)\s*(.*)", line)
            if m:
                fixed.append((m.group(1), m.group(2), m.group(3)))
    return findings, fixed


def merge_reports(reports):
    merged = {"counters": {}, "samples": [], "violations": [], "assumptions": [], "caps_hit": [], "configs": [],
              "notes": [], "exhaustive": True, "rule": "", "engine": [], "wall_s": 0.0}
    rules = []
    for r in reports:
        for k, v in r.get("counters", {}).items():
            if k.startswith("max_"):
                merged["counters"][k] = max(merged["counters"].get(k, 0), v)
            else:
                merged["counters"][k] = merged["counters"].get(k, 0) + v
        for s in r.get("samples", []):
            if len(merged["samples"]) < 16:
                merged["samples"].append(s)
        merged["violations"].extend(r.get("violations", []))
        for key in ("assumptions", "caps_hit", "configs", "notes"):
            for a in r.get(key, []):
                if a not in merged[key]:
                    merged[key].append(a)
        merged["exhaustive"] = merged["exhaustive"] and bool(r.get("exhaustive", False))
        if r.get("rule") and r["rule"] not in rules:
            rules.append(r["rule"])
        if r.get("engine") not in merged["engine"]:
            merged["engine"].append(r.get("engine"))
        merged["wall_s"] += r.get("wall_s", 0.0)
        for k, v in r.items():
            if k not in merged and k not in ("property", "tier", "seed", "level"):
                merged[k] = v
    merged["rule"] = " || ".join(rules)
    return merged


def write_evidence(prop, tier, seed, level, merged, n_violations, wall):
    c = merged["counters"]
    cov = {
        "evaluations": int(c.get("evaluations", 0)),
        "distinct_nontrivial": int(c.get("distinct_nontrivial", 0)),
        "rule": merged["rule"],
        "samples": merged["samples"],
        "exhaustive": bool(merged["exhaustive"]),
        "caps_hit": merged["caps_hit"],
        "configs": merged["configs"],
        "engines": merged["engine"],
        "counters": c,
    }
    if level == "model_checking":
        cov["states"] = int(c.get("states", 0))
        cov["transitions"] = int(c.get("transitions", 0))
        cov["traces_validated_against_impl"] = int(c.get("traces_validated_against_impl", c.get("transitions", 0)))
        for k in ("merges", "schedules", "max_path_len", "distinct_observations", "spec_comparisons"):
            if k in c:
                cov[k] = int(c[k])
    for k in ("bounds", "known_findings_reported", "ledger_levels_compared", "shared_mutable_locations"):
        if k in merged:
            cov[k] = merged[k]
    if LENIENT:
        merged["notes"].append("state-copy hook H4 built in lenient mode (unknown struct fields ignored when fingerprinting states) for: " + ", ".join(sorted(LENIENT)))
    if merged["notes"]:
        cov["notes"] = merged["notes"]
    ev = {"property_id": prop, "tier": tier, "seed": int(seed), "level": level, "coverage": cov,
          "assumptions": merged["assumptions"], "wall_s": round(wall, 3), "violations": int(n_violations)}
    os.makedirs(EVIDENCE, exist_ok=True)
    path = os.path.join(EVIDENCE, prop + ".json")
    with open(path + ".tmp", "w") as f:
        json.dump(ev, f, indent=1, sort_keys=True)
        f.write("\n")
    os.replace(path + ".tmp", path)
    return path


def main(argv):
    if not argv or argv[0].startswith("-"):
        print(__doc__ or "usage: check <id> [--tier quick|thorough] [--seed N] [--replay path]")
        return 2
    prop = argv[0]
    tier = os.environ.get("VERIF_TIER", "quick")
    seed = os.environ.get("VERIF_SEED", "1")
    replay = None
    i = 1
    while i < len(argv):
        if argv[i] == "--tier":
            tier = argv[i + 1]; i += 2
        elif argv[i] == "--seed":
            seed = argv[i + 1]; i += 2
        elif argv[i] == "--replay":
            replay = argv[i + 1]; i += 2
        else:
            print("unknown argument " + argv[i]); return 2
    if tier not in ("quick", "thorough"):
        tier = "quick"
    try:
        seed = int(seed)
    except ValueError:
        seed = 1
    if prop not in PLANS:
        print("unknown property " + prop)
        return 2
    plan = PLANS[prop]
    t0 = time.time()
    try:
        if replay:
            return do_replay(prop, plan, replay, tier, seed)
        log(anchor_oracle())
        reports = []
        steps = plan["runs"](tier)
        bins = [build_engine(step["engine"], step["cfg"]) for step in steps]

        def one(i):
            step, binp = steps[i], bins[i]
            rpt = os.path.join(OUT, "reports", "%s-%s-%s-%s.json" % (prop, step["engine"], step["cfg"], step.get("tag", "0")))
            os.makedirs(os.path.dirname(rpt), exist_ok=True)
            r = run_engine(binp, step.get("prop", prop), step.get("tier", tier), seed, rpt, step.get("extra", []),
                           step.get("timeout", 3600 if tier == "quick" else 6 * 3600), step_env(step))
            for v in r.get("violations", []):
                v["_step"] = step
            return r

        par = int(plan.get("parallel", 1))
        if par > 1 and len(steps) > 1:
            # independent engine runs (different builds of the same enumeration) side by side
            import concurrent.futures
            with concurrent.futures.ThreadPoolExecutor(max_workers=par) as ex:
                reports = list(ex.map(one, range(len(steps))))
        else:
            reports = [one(i) for i in range(len(steps))]
        merged = merge_reports(reports)
        if "post" in plan:
            plan["post"](merged, reports, tier)
        rc = decide(prop, plan, tier, seed, merged, time.time() - t0)
        return rc
    except Machinery as e:
        print("MACHINERY-FAILURE property=%s: %s" % (prop, e))
        return 2


def do_replay(prop, plan, path, tier, seed):
    with open(path) as f:
        rj = json.load(f)
    step = rj.get("_step") or plan["runs"](tier)[0]
    binp = build_engine(step["engine"], step["cfg"])
    cmd = [binp, "--prop", step.get("prop", prop), "--tier", tier, "--seed", str(rj.get("seed", seed)), "--replay", path] + step.get("extra", [])
    env = base_env(); env.update(step_env(step))
    rc, out = run_cmd(cmd, cwd=VERIF, env=env, timeout=1800)
    print(out, end="")
    if rc not in (0, 1):
        print("MACHINERY-FAILURE property=%s: replay engine exit %s" % (prop, rc))
        return 2
    return rc


def decide(prop, plan, tier, seed, merged, wall):
    findings, _fixed = load_known()
    known = {k: txt for (p, k, txt) in findings if p == prop}
    new, known_hit = [], {}
    for v in merged["violations"]:
        if v["key"] in known:
            known_hit.setdefault(v["key"], v)
        else:
            new.append(v)
    # confirm every new violation by replaying it twice without the explorer
    rdir = os.path.join(OUT, "replays")
    os.makedirs(rdir, exist_ok=True)
    lines = []
    confirmed = 0
    unconfirmed = []
    for n, v in enumerate(new[:10]):
        rj = dict(v.get("replay") or {})
        rj["_step"] = v.get("_step")
        rj["key"] = v["key"]
        rj["summary"] = v["summary"]
        rpath = os.path.join(rdir, "%s-%d.json" % (prop, n))
        with open(rpath, "w") as f:
            json.dump(rj, f, indent=1)
        step = v.get("_step")
        if step and plan.get("replayable", True):
            binp = build_engine(step["engine"], step["cfg"])
            outcomes = []
            for _ in range(2):
                cmd = [binp, "--prop", step.get("prop", prop), "--tier", tier, "--seed", str(rj.get("seed", seed)),
                       "--replay", rpath] + step.get("extra", [])
                env = base_env(); env.update(step_env(step))
                rc, out = run_cmd(cmd, cwd=VERIF, env=env, timeout=1800)
                outcomes.append(rc)
            if outcomes != [1, 1]:
                # The single-history replay did not reproduce it (some oracles only exist inside the
                # explorer). Re-run the whole exploration once: if the same key comes back the violation
                # is deterministic and is reported; if not, that is a machinery problem.
                rpt2 = os.path.join(OUT, "reports", "%s-recheck.json" % prop)
                r2 = run_engine(binp, step.get("prop", prop), step.get("tier", tier), seed, rpt2, step.get("extra", []),
                                step.get("timeout", 3600 if tier == "quick" else 6 * 3600), step_env(step))
                if not any(x.get("key") == v["key"] for x in r2.get("violations", [])):
                    # Not reproducible (the free-running sampling lanes can produce such reports: they
                    # observe real races). It is never reported as a verdict on its own; if other
                    # violations of this run are confirmed it is dropped with a note, otherwise the run
                    # is a machinery failure.
                    unconfirmed.append("violation %s neither replays (exit codes %s) nor recurs when the exploration is re-run; see %s" % (v["key"], outcomes, rpath))
                    continue
                rj["replay_note"] = "single-history replay exit codes %s; confirmed by re-running the exploration" % outcomes
                with open(rpath, "w") as f:
                    json.dump(rj, f, indent=1)
        confirmed += 1
        lines.append("VIOLATION property=%s replay=%s  # %s: %s" % (prop, rpath, v["key"], v["summary"]))
    if unconfirmed:
        if confirmed == 0:
            raise Machinery(unconfirmed[0])
        merged["notes"].extend("not reproducible, not reported: " + u for u in unconfirmed)
        unconf_keys = set(u.split()[1] for u in unconfirmed)
        new = [v for v in new if v["key"] not in unconf_keys]
    kf = []
    for k, v in sorted(known_hit.items()):
        kf.append("KNOWN-FINDING: property=%s %s (%s)" % (prop, k, known[k] or v["summary"]))
    merged["known_findings_reported"] = sorted(known_hit.keys())
    # vacuity guards: a model-checking run that merged nothing or observed one outcome is suspicious
    c = merged["counters"]
    level = plan["level"]
    if level == "model_checking" and c.get("states", 0) < 2 and not new:
        raise Machinery("vacuous exploration: fewer than 2 states")
    if c.get("evaluations", 0) < 1:
        raise Machinery("vacuous run: no evaluations")
    path = write_evidence(prop, tier, seed, level, merged, len(new), wall)
    for l in kf:
        print(l)
    for l in lines:
        print(l)
    log("%s tier=%s: %d evaluations, %d new violation(s), %d known; evidence %s; %.1fs" % (
        prop, tier, c.get("evaluations", 0), len(new), len(known_hit), path, wall))
    if new:
        return 1
    print("OK property=%s tier=%s evaluations=%d exhaustive=%s" % (prop, tier, c.get("evaluations", 0), merged["exhaustive"]))
    return 0
