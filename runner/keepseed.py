#!/usr/bin/env python3
"""keepseed.py <PROP> <LETTER> [--checks C03,C04] [--demo-cmd '<shell>'] [--needs '<text>']

Confirms a seeded change produced by a sub-agent in its scratch worktree /tmp/mut/<PROP>
(files in /tmp/mut/<PROP>-work/<LETTER>.diff etc.), then runs our checks against it in /repo and
stores it as /verif/seeded/<PROP>-<LETTER>/ (patch.diff, demonstration, meta.json).

Confirmation = (1) the repository's own suite passes with the change applied, (2) the
demonstration fails with the change, (3) the demonstration passes without it.
"""
import json, os, re, shutil, subprocess, sys, glob, time

def sh(cmd, cwd=None, env=None, timeout=3600):
    p = subprocess.run(cmd, shell=True, cwd=cwd, env=env, stdout=subprocess.PIPE, stderr=subprocess.STDOUT, text=True, timeout=timeout)
    return p.returncode, p.stdout

def main():
    prop, letter = sys.argv[1], sys.argv[2]
    checks, demo_cmd, needs = [prop], None, ""
    a = sys.argv[3:]
    while a:
        if a[0] == "--checks": checks = a[1].split(","); a = a[2:]
        elif a[0] == "--demo-cmd": demo_cmd = a[1]; a = a[2:]
        elif a[0] == "--needs": needs = a[1]; a = a[2:]
        else: raise SystemExit("bad arg " + a[0])
    wt = "/tmp/mut/%s" % prop
    work = "/tmp/mut/%s-work" % prop
    diff = "%s/%s.diff" % (work, letter)
    env = dict(os.environ, CARGO_TARGET_DIR=work + "/target", CARGO_NET_OFFLINE="true", RUST_BACKTRACE="0")
    env.pop("RUSTFLAGS", None)
    assert os.path.exists(diff), diff
    rc, out = sh("git status --short", cwd=wt)
    if out.strip():
        sh("git checkout -- .", cwd=wt)
    if demo_cmd is None:
        demo = work + "/demo"
        toml = open(demo + "/Cargo.toml").read() if os.path.exists(demo + "/Cargo.toml") else ""
        name = "%s_demo" % letter
        if re.search(r'\[\[bin\]\][^\[]*name\s*=\s*"%s"' % name, toml):
            demo_cmd = "cd %s && cargo run -q --offline --bin %s" % (demo, name)
        elif os.path.exists(demo + "/Cargo.toml"):
            demo_cmd = "cd %s && cargo test --offline --test %s" % (demo, name)
        else:
            raise SystemExit("cannot infer demo command; pass --demo-cmd")
    meta = {"seed": "%s-%s" % (prop, letter), "breaks_property": prop, "needs_to_manifest": needs, "demo_cmd": demo_cmd, "ran": []}
    # 1. suite with the change
    rc, out = sh("git apply %s" % diff, cwd=wt)
    assert rc == 0, out
    try:
        rc, out = sh("cargo test --workspace --no-fail-fast --offline 2>&1 | grep -E '^test result|error' ", cwd=wt, env=env)
        results = [l for l in out.splitlines() if l.startswith("test result")]
        suite_ok = bool(results) and all("ok." in l and " 0 failed" in l for l in results) and "error" not in out
        meta["suite_with_change"] = results
        meta["ran"].append("cd %s && git apply %s && cargo test --workspace --no-fail-fast --offline  -> %s" % (wt, diff, "pass" if suite_ok else "FAIL"))
        # 2. demo with the change
        rc_with, out_with = sh(demo_cmd, env=env)
        meta["demo_with_change"] = {"exit": rc_with, "tail": out_with[-1500:]}
    finally:
        sh("git checkout -- .", cwd=wt)
    # 3. demo without
    rc_without, out_without = sh(demo_cmd, env=env)
    meta["demo_without_change"] = {"exit": rc_without, "tail": out_without[-800:]}
    meta["ran"].append("%s  -> exit %d with the change, exit %d without" % (demo_cmd, rc_with, rc_without))
    confirmed = suite_ok and rc_with != 0 and rc_without == 0
    meta["confirmed"] = confirmed
    print("suite_ok=%s demo_with=%d demo_without=%d confirmed=%s" % (suite_ok, rc_with, rc_without, confirmed))
    if not confirmed:
        print(json.dumps(meta, indent=1)[:3000])
        return 1
    # 4. our checks against it, in /repo
    rc, out = sh("git diff --quiet", cwd="/repo")
    assert rc == 0, "/repo dirty"
    rc, out = sh("git apply %s" % diff, cwd="/repo")
    assert rc == 0, "patch does not apply to /repo: " + out
    det = {}
    try:
        for c in checks:
            t0 = time.time()
            rc, out = sh("./check %s --tier quick 2>/dev/null" % c, cwd="/verif")
            lines = [l[:300] for l in out.splitlines() if l.startswith(("VIOLATION", "MACHINERY", "OK", "KNOWN"))]
            det[c] = {"exit": rc, "lines": lines[:4], "wall_s": round(time.time() - t0, 1)}
            print(c, rc, lines[:2])
    finally:
        sh("git checkout -- .", cwd="/repo")
    meta["checks_against_it"] = det
    meta["detected_by"] = [c for c, d in det.items() if d["exit"] == 1]
    meta["ran"].append("git -C /repo apply patch.diff; ./check <id> --tier quick for %s; git -C /repo checkout -- ." % ",".join(checks))
    # 5. store
    dst = "/verif/seeded/%s-%s" % (prop, letter)
    os.makedirs(dst, exist_ok=True)
    shutil.copy(diff, dst + "/patch.diff")
    for f in glob.glob("%s/%s_demo*" % (work, letter)):
        if os.path.isfile(f) and os.path.getsize(f) < 200000:
            shutil.copy(f, dst)
    demo = work + "/demo"
    if os.path.isdir(demo):
        os.makedirs(dst + "/demo", exist_ok=True)
        for f in ["Cargo.toml"]:
            if os.path.exists(demo + "/" + f): shutil.copy(demo + "/" + f, dst + "/demo/")
    rep = work + "/REPORT.md"
    if os.path.exists(rep):
        shutil.copy(rep, dst + "/AGENT_REPORT.md")
    with open(dst + "/meta.json", "w") as f:
        json.dump(meta, f, indent=1)
    print("kept", dst, "detected_by", meta["detected_by"])
    return 0

sys.exit(main())
