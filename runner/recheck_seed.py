#!/usr/bin/env python3
"""recheck_seed.py <SEED> [<SEED> ...] [--checks C01,C04] [--tier quick]

Re-runs our checks against seeded changes that are already stored under /verif/seeded/<SEED>/
(patch applied to /repo, checks run, patch reverted) and records the outcome in meta.json under
"rechecked" (the original "checks_against_it" - the verdict at the time the seed was confirmed - is
kept). Without --checks, the checks that were run at confirmation time are used. `all` = every seed.
Restores the evidence files of the unchanged tree afterwards (git checkout of /verif/evidence).
"""
import json, os, subprocess, sys, time

def sh(cmd, cwd=None):
    p = subprocess.run(cmd, shell=True, cwd=cwd, stdout=subprocess.PIPE, stderr=subprocess.STDOUT, text=True)
    return p.returncode, p.stdout

def main():
    a = sys.argv[1:]
    seeds, checks, tier, detected_only = [], None, "quick", False
    while a:
        if a[0] == "--checks": checks = a[1].split(","); a = a[2:]
        elif a[0] == "--tier": tier = a[1]; a = a[2:]
        elif a[0] == "--detected-only": detected_only = True; a = a[1:]
        else: seeds.append(a[0]); a = a[1:]
    if seeds == ["all"]:
        seeds = sorted(d for d in os.listdir("/verif/seeded") if os.path.exists("/verif/seeded/%s/patch.diff" % d))
    missed = []
    for s in seeds:
        d = "/verif/seeded/" + s
        meta = json.load(open(d + "/meta.json"))
        cs = checks or list(meta.get("checks_against_it", {}).keys()) or [s.split("-")[0]]
        if detected_only and not checks:
            prev = (meta.get("rechecked") or {}).get("detected_by") or meta.get("detected_by") or []
            cs = prev or cs
        rc, out = sh("git diff --quiet", cwd="/repo")
        assert rc == 0, "/repo dirty"
        rc, out = sh("git apply %s/patch.diff" % d, cwd="/repo")
        if rc != 0:
            rc, out = sh("git apply -3 %s/patch.diff && git reset -q" % d, cwd="/repo")
        if rc != 0:
            sh("git checkout -- . ; git reset -q", cwd="/repo")
            print(s, "PATCH-DOES-NOT-APPLY", out[-200:].replace("\n", " "), flush=True)
            missed.append(s + " (patch does not apply)")
            continue
        res = {}
        try:
            for c in cs:
                t0 = time.time()
                rc, out = sh("./check %s --tier %s 2>/dev/null" % (c, tier), cwd="/verif")
                lines = [l[:300] for l in out.splitlines() if l.startswith(("VIOLATION", "MACHINERY", "OK", "KNOWN"))]
                res[c] = {"exit": rc, "lines": lines[:3], "wall_s": round(time.time() - t0, 1)}
        finally:
            sh("git checkout -- .", cwd="/repo")
        det = [c for c, r in res.items() if r["exit"] == 1]
        meta["rechecked"] = {"tier": tier, "results": res, "detected_by": det}
        json.dump(meta, open(d + "/meta.json", "w"), indent=1)
        print(s, "detected_by", det, {c: r["exit"] for c, r in res.items()}, flush=True)
        if not det:
            missed.append(s)
    sh("git checkout -- evidence", cwd="/verif")
    print("MISSED:", missed)
    return 0

sys.exit(main())
