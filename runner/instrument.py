#!/usr/bin/env python3
"""instrument.py - the schedule explorer's private copy of the blake3 crate.

Copies /repo's crate (Cargo.toml, build.rs, src/, c/ as a symlink) to /verif/target/sched-src/blake3
and substitutes, textually, `::vshim::sync` for `core::sync` / `std::sync` (and `::vshim::thread_local!`
for `thread_local!`) in the crate's own source
(not in the verification hooks), so that every atomic, lock and once-cell operation the crate's source
performs is a scheduling point of the controlled scheduler (engines/sched/vshim). On a tree whose
source uses none of these the copy is the original plus one unused dependency.

Files are rewritten only when their content changes, so cargo's fingerprints stay valid.
"""
import os, re, sys, shutil

REPO = "/repo"
DEST = "/verif/target/sched-src/blake3"
VSHIM = "/verif/engines/sched/vshim"

PAT = re.compile(r'(?:::)?\b(?:core|std)::sync\b')
TLS = re.compile(r'(?:(?:::)?\bstd::)?\bthread_local!')
TLS_KEY = re.compile(r'(?:::)?\bstd::thread::LocalKey\b')
# nested import form: use std::{..., sync::atomic::X, ...} / use core::{sync::atomic::...}
NESTED = re.compile(r'\buse\s+(?:core|std)::\{[^;]*\bsync::', re.S)


def put(path, text):
    os.makedirs(os.path.dirname(path), exist_ok=True)
    try:
        with open(path) as f:
            if f.read() == text:
                return False
    except (FileNotFoundError, UnicodeDecodeError):
        pass
    with open(path, "w") as f:
        f.write(text)
    return True


def main():
    stats = {"files": 0, "rewritten_sites": 0, "files_with_sites": [], "unhandled_nested_imports": []}
    want = set()
    for root, dirs, files in os.walk(os.path.join(REPO, "src")):
        for fn in files:
            src = os.path.join(root, fn)
            rel = os.path.relpath(src, REPO)
            dst = os.path.join(DEST, rel)
            want.add(dst)
            if not fn.endswith(".rs"):
                with open(src, "rb") as f:
                    data = f.read()
                os.makedirs(os.path.dirname(dst), exist_ok=True)
                if not os.path.exists(dst) or open(dst, "rb").read() != data:
                    with open(dst, "wb") as f:
                        f.write(data)
                continue
            text = open(src).read()
            stats["files"] += 1
            if fn != "verif_hooks.rs":
                new, n = PAT.subn("::vshim::sync", text)
                new, n2 = TLS.subn("::vshim::thread_local!", new)
                new, n3 = TLS_KEY.subn("::vshim::LocalKey", new)
                n += n2 + n3
                if n:
                    stats["rewritten_sites"] += n
                    stats["files_with_sites"].append(rel)
                if NESTED.search(text):
                    stats["unhandled_nested_imports"].append(rel)
                text = new
            put(dst, text)
    # remove files that no longer exist in /repo/src
    for root, dirs, files in os.walk(os.path.join(DEST, "src")):
        for fn in files:
            p = os.path.join(root, fn)
            if p not in want:
                os.remove(p)
    manifest = open(os.path.join(REPO, "Cargo.toml")).read()
    assert "\n[dependencies]\n" in manifest, "unexpected Cargo.toml layout"
    manifest = manifest.replace("\n[dependencies]\n", '\n[dependencies]\nvshim = { path = "%s" }\n' % VSHIM, 1)
    # dev-dependencies point at paths that are not copied; they are irrelevant for a dependency
    manifest = re.sub(r'\n\[dev-dependencies\]\n.*?(?=\n\[)', "\n", manifest, flags=re.S)
    manifest = re.sub(r'\n\[workspace\]\n.*?(?=\n\[|\Z)', "\n", manifest, flags=re.S)
    put(os.path.join(DEST, "Cargo.toml"), manifest)
    put(os.path.join(DEST, "build.rs"), open(os.path.join(REPO, "build.rs")).read())
    link = os.path.join(DEST, "c")
    if not os.path.islink(link):
        if os.path.exists(link):
            shutil.rmtree(link)
        os.symlink(os.path.join(REPO, "c"), link)
    import json
    put(os.path.join(DEST, "..", "instrument.json"), json.dumps(stats, indent=1, sort_keys=True))
    if "-v" in sys.argv:
        print(json.dumps(stats))
    return 0


if __name__ == "__main__":
    sys.exit(main())
