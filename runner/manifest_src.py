HOOK_COMMITS = ["358b29f", "6cd9f5c", "5546540"]

NOTES = ("All checks are ./check <id> --tier quick|thorough (runner/vrunner.py). Every engine is rebuilt "
         "incrementally from /repo's working tree with the hook guard on. Oracle = independent spec model "
         "spec/b3spec (anchored against a second Python model and the published vectors on every run).")

ENGINES_DOC = [
    {"name": "core", "path": "engines/core", "serves_properties": ["C01"],
     "kind_free_text": "Rust; drives the real blake3 crate (path dependency on /repo) with forced SIMD levels; bounded-exhaustive enumeration and explicit-state BFS over the real Hasher/OutputReader"},
]

PENDING = "check not built yet in this round (planned in DESIGN.md section 3); will be claimed once its engine exists"

CHECKS = {
    "C01": {
        "engine": "core/oneshot", "category": "exploration", "design_ref": "DESIGN.md 3/C01",
        "technique": "bounded-exhaustive input-shape enumeration on the real code vs independent spec model",
        "text": "Every input length in a contiguous range plus a lattice around every block/chunk/SIMD-batch/power-of-two boundary, for three modes, several keys/contexts, two content streams and every SIMD level the CPU has, is hashed by the real one-shot functions (debug assertions and overflow checks on) and compared with an independent executable model of the BLAKE3 paper. Exhaustive over the stated shape space; not a proof for other contents or longer inputs.",
        "note": "Trusted: b3spec (anchored on each run against a second Python model and the 105 published vectors), the H1 detect() override hook. Content restricted to two streams.",
    },
}

NOT_APPLICABLE = {("C%02d" % i): PENDING for i in range(1, 19)}
