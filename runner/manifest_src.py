HOOK_COMMITS = ["358b29f", "6cd9f5c", "5546540", "d5e2d64", "cc0f95b", "723b812"]
FIX_COMMITS = ["923416a", "a6cf66b", "1830814", "c137568", "96c0ea9"]

NOTES = ("All checks are ./check <id> --tier quick|thorough (runner/vrunner.py). Every engine is rebuilt "
         "incrementally from /repo's working tree with the hook guard on. Oracle = independent spec model "
         "spec/b3spec (anchored against a second Python model and the published vectors on every run).")

ENGINES_DOC = [
    {"name": "sched", "path": "engines/sched", "serves_properties": ["C08", "C18"],
     "kind_free_text": "Rust + loom 0.7.2; the real crate (a copy of /repo's source with core::sync/std::sync/thread_local! routed through engines/sched/vshim, regenerated on every build) with hooks H1-H3 and the real C library (TBB seam on, kernel calls and feature-cache accesses redirected to harness scheduling points, blake3_tbb.cpp against a stand-in parallel_invoke); TSan driver for the free-running C pass"},
    {"name": "kernels", "path": "engines/kernels", "serves_properties": ["C05", "C07"],
     "kind_free_text": "Rust + build.rs linking every native kernel flavour from /repo/c under distinct names (Unix asm, C intrinsics as cint_*, Windows-GNU asm as win_* after .rdata->.rodata), register-sentinel trampolines (GNU as), guard-page allocator, child-process isolation, clang ASan/UBSan driver"},
    {"name": "clib", "path": "engines/clib", "serves_properties": ["C06"],
     "kind_free_text": "Rust harness + build.rs compiling /repo/c (assembly, C-intrinsics or portable-only flavour, -DBLAKE3_TESTING); explicit-state BFS over the real blake3_hasher through FFI"},
    {"name": "stock", "path": "engines/stock", "serves_properties": ["C04"],
     "kind_free_text": "Rust; a stock build of the crate with the hook guard OFF and upstream's no_* features, computing the cross-configuration ledger (validates the H1 hook)"},
    {"name": "b3sum", "path": "engines/b3sum", "serves_properties": ["C12", "C13"],
     "kind_free_text": "Rust; builds the real b3sum binary from /repo/b3sum/src/main.rs and includes the same file as a module to reach its private parser/printer; enumerates CLI invocations, checkfiles and paths"},
    {"name": "core", "path": "engines/core", "serves_properties": ["C01", "C02", "C03", "C04", "C09", "C10", "C11", "C14", "C15", "C16", "C17"],
     "kind_free_text": "Rust; drives the real blake3 crate (path dependency on /repo) with forced SIMD levels; bounded-exhaustive enumeration and explicit-state BFS over the real Hasher/OutputReader"},
]

PENDING = "check not built yet in this round (planned in DESIGN.md section 3); will be claimed once its engine exists"

CHECKS = {
    "C01": {
        "engine": "core/oneshot", "category": "exploration", "design_ref": "DESIGN.md 3/C01",
        "technique": "bounded-exhaustive input-shape enumeration on the real code vs independent spec model",
        "text": "Every input length in a contiguous range plus a lattice around every block/chunk/SIMD-batch/power-of-two boundary, for three modes, several keys/contexts, two content streams and every SIMD level the CPU has, is hashed by the real one-shot functions (debug assertions and overflow checks on) and compared with an independent executable model of the BLAKE3 paper. Exhaustive over the stated shape space; not a proof for other contents or longer inputs.",
        "note": "Trusted: b3spec (anchored on each run against a second Python model and the 105 published vectors), the H1 detect() override hook. Content restricted to two streams.",
    },
}

CHECKS["C02"] = {
    "engine": "core/hasher_bfs", "category": "model_checking", "design_ref": "DESIGN.md 3/C02",
    "technique": "explicit-state BFS over the real Hasher with full-state fingerprint merging; spec oracle in every state",
    "text": "Breadth-first search drives the real Hasher (three modes, every SIMD level) with every update size of a fine alphabet (all paths up to a byte total) and a coarse chunk-multiple alphabet (deviation-bounded), merging histories only when every field of the state is identical. In every reachable state count(), finalize, finalize_xof at three positions and finalize_non_root are compared with the independent spec model, queries are checked pure and idempotent, clones independent in both directions, and on every transition Write::write / update_reader (and update_rayon in the rayon build) must produce the same state as update. Every transition is executed on the implementation.",
    "note": "Trusted: b3spec; H4 state-copy hook (exhaustive destructuring); 128-bit state fingerprint. Bounds: fine total <= 5 (quick) / 9 (thorough) chunks; coarse <= 70 / 300 chunks with <= 2 / 3 deviations.",
}
CHECKS["C10"] = {
    "engine": "core/hasher_bfs", "category": "model_checking", "design_ref": "DESIGN.md 3/C10",
    "technique": "explicit-state BFS over the real Hasher with reset and set_input_offset as operations; differential oracle = freshly constructed hasher",
    "text": "The C02 state space extended with reset() from every reachable state and set_input_offset at count()==0 for offsets up to 2^42. Every post-reset state must equal, field for field, a newly constructed hasher of the same mode (and therefore merges with the initial state and is explored again); clone independence is checked on every state in both directions, on the complete state and observationally; clone_from into a hasher of another mode with a history of its own must give the source's state; set_input_offset may be repeated before any input (the last call wins); after every reset the hasher is also driven through three update plans and compared with the spec (a reset hasher behaves like a new one, whatever a state copy may not show) (after every operation on a clone, followed by a finalize of the clone, the original is re-observed against the spec). The trait-level resetting variants (digest::Reset, FixedOutputReset, ExtendableOutputReset, Digest::finalize_reset) are covered by running the C16 traits lane as a second step.",
    "note": "Trusted: b3spec, H4 hook. Offsets limited to {1024, 3072, 4096, 65536, 2^42, 2^42+2048}.",
}

CHECKS["C03"] = {
    "engine": "core/xof_bfs", "category": "model_checking", "design_ref": "DESIGN.md 3/C03",
    "technique": "explicit-state BFS over the real OutputReader merged on the complete reader state; every byte vs the spec stream",
    "text": "From each root (nine input lengths x three modes, produced by finalize_xof and by hazmat::merge_subtrees_root_xof, at every SIMD level) a breadth-first search applies fill, Read::read, set_position and seek(Start/Current/End) with sizes and positions on both sides of every block boundary, of block counter 2^32 (all sixteen xof_many lanes) and of the 2^64-1 limit, from every reachable reader state up to a depth bound. Every byte returned is compared with the spec stream, position() after every step, failed seeks must leave the complete state unchanged, Read must equal fill and Seek(Start) must equal set_position, clones must be independent.",
    "note": "Trusted: b3spec. Depth bound 3-4 (quick) / 5-6 (thorough); reads only while p+n <= 2^64-1.",
}
CHECKS["C09"] = {
    "engine": "core/hazmat", "category": "exploration", "design_ref": "DESIGN.md 3/C09",
    "technique": "bounded-exhaustive enumeration of tree nodes, decompositions, offsets and helper arguments on the real hazmat API vs spec model",
    "text": "Every node of every tree of up to 20 (quick) / 40 (thorough) chunks is hashed through set_input_offset + six update splits + finalize_non_root and compared with the spec CV, in four modes (including new_from_context_key) at every SIMD level; every recursive decomposition of inputs up to 12 / 16 chunks is merged with merge_subtrees_non_root/_root/_root_xof; fixed power-of-two groupings up to 128 chunks; subtrees at chunk counters around 2^32, 2^33, 2^53 and 2^54-1; left_subtree_len and max_subtree_len on every argument up to 2^22 / 2^24 and around every power of two up to the end of their domains, against arithmetic definitions.",
    "note": "Trusted: b3spec. Content restricted to stream A; decompositions wider than 16 chunks rest on compositionality from the per-node check.",
}

CHECKS["C11"] = {
    "engine": "core/adapters", "category": "fault_enumeration", "design_ref": "DESIGN.md 3/C11",
    "technique": "deviation-bounded exhaustive enumeration of reader answer sequences and file shapes on the real adapters (environment-answer exploration)",
    "text": "update_reader runs over a scripted Read; every sequence of answers {fill, short 1/63/1024/65535, Interrupted, hard error, early Ok(0)} with at most 4 (quick) / 5 (thorough) deviations from the default is executed (iterating the bound, so the first counterexample has the fewest deviations) on six stream lengths around the 64 KiB buffer, from empty and non-empty hashers; the oracle is the spec hash of exactly the bytes yielded, the count, the error/EOF protocol, and observational equality with update(). update_reader(File), update_mmap and update_mmap_rayon are run on regular files of every length 0..=300, 16384+-70 and around 64 KiB/1 MiB, on /proc, /dev/null, a directory, a missing path, a FIFO and an unmappable sysfs file - once normally and once with file-backed mmap forced to fail by an LD_PRELOAD interposer.",
    "note": "Trusted: b3spec; the interposer (shims/mmapfail.c). Reader content is stream A.",
}

CHECKS["C14"] = {
    "engine": "core/hash_value", "category": "exploration", "design_ref": "DESIGN.md 3/C14",
    "technique": "exhaustive enumeration of the decomposed value domain (every byte value at every position, every length, every single-bit pair)",
    "text": "Every byte value at every one of the 32 positions (three backgrounds) through to_hex/Display/Debug/from_hex (&str, &[u8], String; lower and upper case)/FromStr/[u8;32]/slices; every byte value 0..255 at every one of the 64 positions of a valid hex string (accepted iff a hex digit, with the defined value); every input length 0..=130; from_slice on every length 0..=70; FromStr/parse on every length and on a valid string decorated before/after/around with 26 whitespace, prefix and quote characters (must agree with from_hex: rejected); equality of Hash with Hash, [u8;32] and [u8] for all 256 single-bit differences, every two-byte difference (all position pairs x 16 mask pairs, +d/-d), three-byte differences with cancelling masks, swapped/complemented 2-16 byte words, and for slices of every length sharing the prefix; serde JSON and CBOR (sequence and legacy byte-string form) round trips. All under catch_unwind.",
    "note": "The 2^256 value space is decomposed per position. serde checked with serde_json and ciborium.",
}
CHECKS["C15"] = {
    "engine": "core/refimpl", "category": "exploration", "design_ref": "DESIGN.md 3/C15",
    "technique": "bounded-exhaustive enumeration of lengths, update histories and output lengths on the real reference_impl, and of every field of test_vectors.json, vs independent spec model",
    "text": "reference_impl::Hasher in three modes: every single-update length 0..=17409 (quick) / 66561 (thorough) plus lattice, every history of up to 3 / 4 updates over the fine alphabet and 3 over the coarse one, every output length 0..=200 and 1024/1025/4099; derive_key with a context string of every length 0..=3200 (quick) / 8300 (thorough) and keyed mode with every single-bit key; every field of the live test_vectors.json (key, context, comment, the 35 lengths, 3 x 131 bytes each) against b3spec and directly against the optimized crate and the reference implementation; the test_vectors crate itself (TEST_CASES, TEST_KEY, TEST_CONTEXT, OUTPUT_LEN, paint_test_input, and generate_json() byte-for-byte against the checked-in file and case by case against the spec).",
    "note": "Trusted: b3spec (anchored against a copy of the vectors kept in /verif and a second model).",
}
CHECKS["C16"] = {
    "engine": "core/traits_bfs+guts", "category": "model_checking", "design_ref": "DESIGN.md 3/C16",
    "technique": "explicit-state BFS with a second hasher driven in lock-step only through the RustCrypto traits; enumeration of guts arguments vs spec nodes",
    "text": "From every state of the fine (+reset) and a coarse Hasher exploration a second hasher, constructed and driven only through digest::{Digest, Update, Reset, KeyInit}, must have the identical complete state after every step, and in every state FixedOutput, FixedOutputReset, ExtendableOutput(+Reset), XofReader, Digest and Mac (finalize, verify, verify_slice, verify_truncated_left) must agree with the inherent API, the resetting variants leaving exactly the state of a reset hasher. guts::ChunkState is enumerated over every length 0..=1024, seven splits, edge chunk counters across 2^32 and up to 2^64-1 and is_root (counter 0), guts::parent_cv over CV pairs including all 256 walking-one values, against spec chunk/parent nodes.",
    "note": "Trusted: b3spec, H4 hook. is_root with a non-zero chunk counter is outside the domain (a root chunk is chunk 0; the crate debug-asserts it) and is not generated.",
}
CHECKS["C17"] = {
    "engine": "core/secrecy", "category": "model_checking", "design_ref": "DESIGN.md 3/C17",
    "technique": "non-interference check over the explored state space: lock-step second lane with different secrets, Debug output and post-zeroize raw memory compared",
    "text": "Every state of the fine and a coarse Hasher exploration is reached in lock-step by a second hasher with a different key/context and different input bytes; {:?} and {:#?} must be byte-identical and contain no key/CV word. The same for OutputReader (positions x reads) and guts::ChunkState (every length). With the zeroize feature, Hasher and OutputReader objects built with two different secrets over 16 (quick) / 96 (thorough) shapes must have identical raw memory after zeroize() (offsets unstable between identically built objects are excluded and counted), and a zeroized Hash must be all zero.",
    "note": "Two fixed secret assignments per mode. Raw memory is read through a byte pointer.",
}

CHECKS["C12"] = {
    "engine": "b3sum/cli", "category": "fault_enumeration", "design_ref": "DESIGN.md 3/C12",
    "technique": "bounded-exhaustive enumeration of CLI flag combinations and of checkfile line-kind sequences on the real b3sum binary vs spec model",
    "text": "The real b3sum binary (built from /repo/b3sum/src/main.rs) is run on files of nine sizes around the mmap threshold with all pairs of values (quick) / the full product (thorough) of mode, --length, --seek (up to 2^64-1-length), --no-mmap, --num-threads and output form, plus stdin input, key lengths and multi-file runs; stdout must be the spec stream S[seek..seek+length] in the documented form. --check is run on checkfiles enumerated as sequences of 15 line kinds (good plain/tag/escaped/CRLF/tag-with-spaces, stale, missing, eight malformed kinds) up to length 2 over all kinds and 3 over seven (quick; 3 and 4 thorough), with and without --quiet, and on all pairs of checkfiles: exit 0 iff every line is good, one OK/FAILED line per entry in order, one diagnostic per malformed line, the right warning count, never abnormal termination.",
    "note": "b3sum cannot be built in place offline; it is compiled from the same source with clap (derive only) and a stand-in for `wild` equal to its Unix behaviour. File contents from stream B.",
}
CHECKS["C13"] = {
    "engine": "b3sum/checkfile_format", "category": "exploration", "design_ref": "DESIGN.md 3/C13",
    "technique": "bounded-exhaustive enumeration of paths and check lines through the real filepath_to_string / parse_check_line (included from main.rs) and the real binary, vs a reference printer/parser written from the documentation",
    "text": "Every path of length 1..4 (quick) / 5 (thorough) over 13 symbols (space, backslash, LF, CR, parentheses, =, B, 0xFF, U+FFFD, a 2-byte character, NUL, a) plus seeds, plus every separator-like token (double space, ' *', ') = ', backslash, LF, CR, backslash-n, 'BLAKE3 (', ...) at every offset 0..=72 of an otherwise plain name, is printed by the real filepath_to_string in plain and --tag form with LF/CRLF/no terminator and parsed back by the real parse_check_line: the line must equal the documented format, the round trip must succeed exactly for representable paths, and no two paths may parse to the same path. Every single-character insert/replace/delete/duplicate (26 characters incl. look-alikes whose code point ends in a hex digit, every position) of 20 valid lines, multi-byte hash fields, and all strings up to length 3 / 4 over 12 characters are parsed: never a panic, Ok only with the result the documented format gives, b3sum's own output never rejected. The real binary then hashes ~190 / ~2200 real files with such names in both forms and --check is run on its output.",
    "note": "Reference printer/parser (engines/b3sum/src/refmodel.rs) written from what_does_check_do.md and the property statement. Unix path semantics.",
}

CHECKS["C04"] = {
    "engine": "core (C01+C02+C03+C09 sub-engines) x builds", "category": "exploration", "design_ref": "DESIGN.md 3/C04",
    "technique": "the C01/C02/C03/C09 enumerations and state-space explorations re-run in every cell of the build-flavour x feature-set x forced-SIMD-level matrix, each vs the spec model, plus cross-build ledger equality",
    "text": "The one-shot enumeration (C01), the Hasher BFS (C02), the OutputReader BFS (C03) and the hazmat enumeration (C09) are run in three builds of the crate (quick: assembly+default features, prefer_intrinsics+all features, pure+no default features; thorough: all nine flavour x feature-set combinations), each at every SIMD level the CPU has (forced through the H1 hook), every result compared with the independent spec model. A fixed ledger of one-shot cases is additionally summed per level and must be identical across builds; in the thorough tier it must also equal the ledger of stock builds (hook guard off) restricted with upstream's own no_avx512/no_avx2/no_sse41/no_sse2 features, which validates the H1 hook itself.",
    "note": "Not reachable here: 32-bit x86, NEON, wasm, MSVC assembly. Trusted: b3spec, H1 hook (validated against stock no_* builds in the thorough tier).",
}

CHECKS["C06"] = {
    "engine": "clib/hasher_bfs", "category": "model_checking", "design_ref": "DESIGN.md 3/C06",
    "technique": "explicit-state BFS over the real C blake3_hasher (three C build flavours x every dispatch mask), merged on the live bytes of the public struct; spec oracle in every state",
    "text": "The C library is built from /repo/c in three flavours (Unix assembly, C intrinsics, portable-only) and explored under every dispatch mask the CPU supports, set through upstream's own BLAKE3_TESTING seam g_cpu_features. From each of the four initialisers (five mode instances) a breadth-first search applies update over the fine and coarse alphabets and reset from every state, merging on the live bytes of the struct; in every state finalize/finalize_seek at 22 (seek, out_len) probes - out_len 0, partial first/last blocks, block counter 2^32 across all 16 xof_many lanes, the end of the 2^64-1 stream - are compared with the spec stream with canaries around the output, queries must leave every byte of the hasher unchanged, zero-length updates (NULL, dangling, valid pointer) must be no-ops, reset must equal a fresh hasher and the two derive-key initialisers must agree.",
    "note": "Trusted: b3spec; the Rust mirror of the struct layout (checked against sizeof/offsetof at start). Equality with the Rust crate is by both equalling the spec on the same case space. Bounds as C02.",
}

CHECKS["C05"] = {
    "engine": "kernels (values)", "category": "exploration", "design_ref": "DESIGN.md 3/C05",
    "technique": "bounded-exhaustive enumeration of kernel argument shapes on every kernel flavour (Rust intrinsics, C intrinsics, Unix assembly, Windows-GNU assembly via the Win64 ABI) vs the portable kernel, itself vs the spec model",
    "text": "Seventeen kernels (portable Rust and C; SSE2, SSE4.1, AVX2, AVX-512 as Rust intrinsics, C intrinsics, Unix assembly and Windows-GNU assembly called through the Win64 convention) are each run in their own process on: compress_in_place/compress_xof for every block_len 0..=64 x every flag byte x counters on both sides of every 32-bit carry x a content alphabet, plus walking-one and single-bit flips over every block, CV and counter bit; hash_many for every input count 0..=35 x blocks {1,16} x counters x increment yes/no x flag triples, every flag byte and 343 flag triples at interesting counts, every input/output alignment offset; xof_many for 1..=40 blocks at counters that put the 2^32 carry in every lane. The oracle is the portable Rust kernel, which is compared with the independent spec compression function on the same tuples; outputs are surrounded by canaries.",
    "note": "Block/CV contents restricted to a structured alphabet (arbitrary 512-bit values would need a solver-family argument). MSVC .asm and NEON/wasm cannot be run here.",
}
CHECKS["C07"] = {
    "engine": "kernels (guard pages, register sentinels, sanitizers)", "category": "exploration", "design_ref": "DESIGN.md 3/C07",
    "technique": "bounded-exhaustive enumeration of kernel argument shapes under three monitors: PROT_NONE guard pages flush against every operand (child processes), register-sentinel trampolines for both calling conventions, and an ASan+UBSan build of the C code",
    "text": "Every kernel flavour is run with each operand - every input separately, the input-pointer array, key/CV, block, and an output of exactly the entitled size - placed flush against an inaccessible page, once on its right and once on its left, for block_len 0..=64, input counts 0..=2*degree+3 (35 in the thorough tier) x blocks {1,16} x counters x increment and xof_many 1..=40 blocks; a fault kills only the child and is reported with the case that was running, and the sweep resumes behind it. Every assembly and C kernel call goes through a hand-written trampoline that loads sentinels into all callee-saved registers of the target convention (System V: rbx, rbp, r12-r15; Win64 additionally rsi, rdi, xmm6-xmm15) and checks them, the stack pointer and the direction flag afterwards. The C library and the C intrinsics are additionally built with clang -fsanitize=address,undefined and driven through 16 update histories x 4 modes x 17 (seek, out_len) probes x 5 dispatch masks and direct kernel calls on exact-size heap blocks.",
    "note": "UB in the Rust intrinsics that neither faults nor changes results is not observable; Win64 assembly is run as ELF (no real Windows loader). API-level C histories under guard pages are covered by the sanitizer build rather than mprotect.",
}

CHECKS["C08"] = {
    "engine": "sched (loom)", "category": "model_checking", "design_ref": "DESIGN.md 3/C08",
    "technique": "stateless model checking of the real code under a controlled scheduler (loom): exhaustive order assignments plus all interleavings of join/kernel-entry scheduling points under a preemption bound, Rust and C",
    "text": "Hasher::update_with_join runs with a scripted Join (hook H3) and blake3_hasher_update_tbb with a scripted parallel_invoke (the real c/blake3_tbb.cpp compiled against a stand-in header), on inputs whose split tree has 1..7 internal nodes at every SIMD level, from empty and non-empty hashers. (1) Every assignment of left-first/right-first to the internal nodes is executed. (2) For every choice of up to two (quick) / three (thorough) nodes run concurrently on loom threads, every interleaving of the scheduling points - join entry and exit, every kernel entry and every kernel return (hook H2; blake3.c's kernel calls are redirected to harness functions) - is executed by iterative context bounding: completely with at most 1 preemption, then 2 (3 in the thorough tier) and without a bound for models that are small enough at the previous bound (all models in the thorough tier, subject to reported wall-clock budgets). After every execution the complete hasher state and 64 output bytes must equal single-threaded update, which is tied to the spec. update_rayon itself (the real RayonJoin, pools of 1, 2 and 4 threads) is additionally executed as a transition from every state of the C02 Hasher exploration and must leave exactly the state update leaves. Supporting, labelled as sampling: real rayon pools of 1..16 threads on large inputs through update_rayon / update_mmap_rayon, and a free-running ThreadSanitizer build of the C parallel path.",
    "note": "Interleavings inside one kernel call and weak-memory effects on plain accesses are outside the scheduler (race-detector passes only). oneTBB itself is not installed; its parallel_invoke is a stand-in. loom MAX_THREADS=5.",
}
CHECKS["C18"] = {
    "engine": "sched (loom)", "category": "model_checking", "design_ref": "DESIGN.md 3/C18",
    "technique": "stateless model checking under a controlled scheduler (loom) of threads using disjoint instances, with scheduling points at kernel entries and at the C feature-cache load/store; plus deviation-bounded enumeration of Platform::detect() answers",
    "text": "Two and three loom threads each run a complete operation sequence (incremental hashing, update_reader / io::copy, extended output with seeks across block counter 2^32, clones, one-shot calls, repeated key derivation with per-thread context strings and keys, hazmat merges; C: init/init_keyed/init_derive_key_raw, update, finalize_seek) on their own instances; all interleavings of the scheduling points (kernel entries and returns, the C feature-cache load/store, every core::sync / std::sync operation in the crate's source) are executed by iterative context bounding - every model completely with at most 1 preemption, then with 2 (3 for pairs in the thorough tier) for models of at most 110 schedules at bound 1 (all models in the thorough tier) - and every thread's results must equal the results of the same sequence run alone (= the spec). On the C side every execution starts with g_cpu_features = UNDEFINED and the cache's load and store are scheduling points (hook H5), so detection itself races, and the final cache value is checked. The Rust side runs on a copy of the crate's source, regenerated from /repo on every build (runner/instrument.py), in which core::sync / std::sync atomics, Mutex, RwLock, Once, OnceLock, LazyLock operations written in the crate's own source are scheduling points too, statics behind them are put back to their initial bytes before every execution, and thread_local! values are per virtual thread (on the unchanged tree the crate performs no such operation: counter crate_sync_ops_as_scheduling_points = 0). The cpufeatures caches are over-approximated: every Platform::detect() call may answer any level up to the best one, all answer sequences with at most two deviations. Sampling, labelled so: 16 real threads released together as the first calls of fresh processes.",
    "note": "cpufeatures' own atomics are third-party code loom does not see. Interleavings finer than the scheduling points are not explored.",
}

NOT_APPLICABLE = {("C%02d" % i): PENDING for i in range(1, 19)}
