#!/usr/bin/env python3
"""Validate MANIFEST.json and every evidence file against the schemas (needs jsonschema: python3-vt)."""
import json, glob, sys
import jsonschema
ok = True
m = json.load(open("/verif/MANIFEST.json"))
jsonschema.validate(m, json.load(open("/root/.vp/MANIFEST.schema.json")))
es = json.load(open("/root/.vp/EVIDENCE.schema.json"))
for c in m["checks"]:
    try:
        e = json.load(open(c["evidence_file"]))
        jsonschema.validate(e, es)
        assert e["property_id"] == c["property_id"]
        assert e["level"] == c["level_claimed"]["category"], (e["level"], c["level_claimed"]["category"])
        print(c["property_id"], "ok", e["tier"], e["coverage"].get("evaluations"), e["coverage"].get("states"))
    except Exception as x:
        ok = False
        print(c["property_id"], "INVALID", str(x)[:300])
sys.exit(0 if ok else 1)
