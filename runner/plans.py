"""Which engines, builds and runs decide each property (DESIGN.md section 3)."""

NODEF = ["--no-default-features"]

ENGINES = {
    "core": {
        "dir": "engines/core", "bin": "vcore",
        "configs": {
            "asm-default": [],
            "asm-all": ["--features", "all"],
            "intr-all": ["--features", "all,prefer_intrinsics"],
            "intr-default": ["--features", "prefer_intrinsics"],
            "pure-nodef": NODEF + ["--features", "pure"],
            "pure-default": ["--features", "pure"],
            "pure-all": ["--features", "all,pure"],
            "asm-nodef": NODEF,
            "intr-nodef": NODEF + ["--features", "prefer_intrinsics"],
            # the same code as users build it: debug assertions and overflow checks off
            "asm-default-nodebug": ["--profile=nodebug"],
            "pure-all-nodebug": ["--profile=nodebug", "--features", "all,pure"],
        },
    },
    "stock": {
        "dir": "engines/stock", "bin": "vstock", "env": {"RUSTFLAGS": ""},
        "configs": {
            "best": [],
            "no_avx512": ["--features", "no_avx512"],
            "no_avx2": ["--features", "no_avx512,no_avx2"],
            "no_sse41": ["--features", "no_avx512,no_avx2,no_sse41"],
            "no_sse2": ["--features", "no_avx512,no_avx2,no_sse41,no_sse2"],
        },
    },
    "clib": {
        "dir": "engines/clib", "bin": "vclib", "env": {"RUSTFLAGS": ""},
        "configs": {"asm": [], "intrinsics": ["--features", "intrinsics"], "portable_only": ["--features", "portable_only"]},
    },
    "kernels": {
        "dir": "engines/kernels", "bin": "vkern",
        "configs": {"default": []},
    },
    "sched": {
        "dir": "engines/sched", "bin": "vsched", "pre": "runner/instrument.py",
        "configs": {"default": []},
    },
    "b3sum": {
        "dir": "engines/b3sum", "bin": "vb3",
        "configs": {"default": [], "nodebug": ["--profile=nodebug"]},
    },
}


def simple(engine, cfg, **kw):
    def runs(tier):
        d = {"engine": engine, "cfg": cfg}
        d.update(kw)
        return [d]
    return runs


def with_nodebug(engine, cfg, **kw):
    """The checked build (debug assertions and overflow checks on) plus the same enumeration on the
    pure-Rust all-features build without them (what users ship; another flavour as a bonus)."""
    def runs(tier):
        a = {"engine": engine, "cfg": cfg, "tag": "checked"}
        b = {"engine": engine, "cfg": "pure-all-nodebug", "tag": "nodebug"}
        a.update(kw)
        b.update(kw)
        return [a, b]
    return runs


C04_PROPS = ["C01", "C02", "C03", "C09"]
C04_QUICK = ["asm-default", "intr-all", "pure-nodef", "pure-all-nodebug"]
C04_ALL = ["asm-default", "asm-all", "asm-nodef", "intr-default", "intr-all", "intr-nodef", "pure-default", "pure-all", "pure-nodef", "pure-all-nodebug", "asm-default-nodebug"]


def c04_runs(tier):
    runs = []
    for cfg in (C04_ALL if tier == "thorough" else C04_QUICK):
        for p in C04_PROPS:
            if tier == "quick" and cfg in ("pure-all-nodebug", "intr-all") and p == "C02":
                # the Hasher BFS with every adapter lane costs 11 s on an all-features build; in the quick
                # tier it runs on the two lean builds here, on asm-all under C02 / C08 and on
                # pure-all-nodebug under C10; the thorough tier runs it on every build
                continue
            # thorough: the three diagonal builds run the deep enumerations, the other six the quick ones
            sub = "thorough" if (tier == "thorough" and cfg in C04_QUICK) else "quick"
            runs.append({"engine": "core", "cfg": cfg, "prop": p, "tag": p, "tier": sub})
    if tier == "thorough":
        for cfg in ["best", "no_avx512", "no_avx2", "no_sse41", "no_sse2"]:
            runs.append({"engine": "stock", "cfg": cfg, "prop": "C04", "tag": "stock"})
    return runs


def c04_post(merged, reports, tier):
    """Ledger equality: the same fixed case set must give the same digests at a given SIMD level in every
    build, and a hook-forced level must equal upstream's own no_* feature build (guard off)."""
    per_level = {}
    for r in reports:
        for lvl, val in (r.get("ledger") or {}).items():
            per_level.setdefault(lvl, []).append((str(r.get("configs")), val))
        for lvl, val in (r.get("stock_ledger") or {}).items():
            per_level.setdefault(lvl, []).append(("stock build, guard off", val))
    merged["ledger_levels_compared"] = {k: len(v) for k, v in per_level.items()}
    merged["counters"]["ledger_cells"] = sum(len(v) for v in per_level.values())
    for lvl, vals in per_level.items():
        if len(set(v for _, v in vals)) > 1:
            merged["violations"].append({
                "key": "ledger:level-%s-differs-across-builds" % lvl,
                "summary": "the fixed one-shot case set hashes differently at level %s in different builds: %s" % (lvl, vals),
                "replay": {"property": "C04", "ledger": vals},
            })
    merged.pop("ledger", None)
    merged.pop("stock_ledger", None)


def c06_runs(tier):
    # the 4 GiB lane runs once, on the assembly flavour
    return [dict({"engine": "clib", "cfg": c, "tag": c}, **({"extra": ["--huge", "1"]} if c == "asm" else {})) for c in ["asm", "intrinsics", "portable_only"]]


PLANS = {
    "C01": {"level": "exploration", "runs": lambda tier: [
        {"engine": "core", "cfg": "asm-default", "tag": "checked", "extra": ["--huge", "1"]},
        # the same sweep on a build without debug assertions / overflow checks (what users ship)
        {"engine": "core", "cfg": "asm-default-nodebug", "tag": "nodebug"}]},
    "C02": {"level": "model_checking", "runs": simple("core", "asm-all", extra=["--huge", "1"])},
    "C03": {"level": "model_checking", "runs": simple("core", "asm-default")},
    "C04": {"level": "exploration", "runs": c04_runs, "post": c04_post},
    "C05": {"level": "exploration", "runs": simple("kernels", "default")},
    "C07": {"level": "exploration", "runs": lambda tier: [
        {"engine": "kernels", "cfg": "default", "tag": "kernels"},
        # the crate's public API with guarded buffers, assembly flavour and Rust/C intrinsics flavour
        # built as users build it (no debug assertions): a bound that is only debug-asserted does not count
        {"engine": "core", "cfg": "asm-default-nodebug", "tag": "api-asm"},
        {"engine": "core", "cfg": "intr-default", "tag": "api-intr"}]},
    "C06": {"level": "model_checking", "runs": c06_runs},
    "C08": {"level": "model_checking", "runs": lambda tier: [
        {"engine": "sched", "cfg": "default", "tag": "loom"},
        # update_rayon itself (RayonJoin, pools of 1/2/4 threads) as a transition from every state of the C02 exploration
        {"engine": "core", "cfg": "asm-all", "prop": "C02", "tag": "rayon-bfs", "extra": ["--exact-rayon", "1"]},
        # update_mmap_rayon on real files (every length class, new and non-new hashers, mmap failing or not)
        {"engine": "core", "cfg": "asm-all", "prop": "C11", "tag": "mmap-rayon-files", "shims": {"mmapfail": "VERIF_MMAPFAIL_SO"}}]},
    "C18": {"level": "model_checking", "runs": simple("sched", "default")},
    "C09": {"level": "exploration", "runs": simple("core", "asm-default")},
    "C10": {"level": "model_checking", "runs": lambda tier: [
        {"engine": "core", "cfg": "asm-default", "tag": "bfs"},
        # the trait-level resetting variants (digest::Reset, *_reset) must also leave the state of a new hasher
        {"engine": "core", "cfg": "asm-all", "prop": "C16", "tag": "traits-reset"},
        {"engine": "core", "cfg": "pure-all-nodebug", "tag": "bfs-nodebug"}]},
    # b3sum with debug assertions / overflow checks on (a panic is a finding) and as it is shipped (without)
    "C12": {"level": "fault_enumeration", "runs": lambda tier: [
        {"engine": "b3sum", "cfg": "default", "tag": "checked"}, {"engine": "b3sum", "cfg": "nodebug", "tag": "nodebug"}]},
    "C13": {"level": "exploration", "runs": lambda tier: [
        {"engine": "b3sum", "cfg": "default", "tag": "checked"}, {"engine": "b3sum", "cfg": "nodebug", "tag": "nodebug"}]},
    "C14": {"level": "exploration", "runs": with_nodebug("core", "asm-all")},
    "C15": {"level": "exploration", "runs": simple("core", "asm-all")},
    "C16": {"level": "model_checking", "runs": with_nodebug("core", "asm-all")},
    "C17": {"level": "model_checking", "runs": with_nodebug("core", "asm-all")},
    "C11": {"level": "fault_enumeration", "runs": with_nodebug("core", "asm-all", shims={"mmapfail": "VERIF_MMAPFAIL_SO"})},
}
