"""Which engines, builds and runs decide each property (DESIGN.md section 3)."""

NODEF = ["--no-default-features"]

ENGINES = {
    "core": {
        "dir": "engines/core", "bin": "vcore",
        "configs": {
            "asm-default": [],
            "asm-all": ["--features", "all"],
            "intr-all": ["--features", "all,prefer_intrinsics"],
            "intr-default": ["--features", "prefer_intrinsics"],
            "pure-nodef": NODEF + ["--features", "pure"],
            "pure-default": ["--features", "pure"],
            "pure-all": ["--features", "all,pure"],
            "asm-nodef": NODEF,
            "intr-nodef": NODEF + ["--features", "prefer_intrinsics"],
        },
    },
    "b3sum": {
        "dir": "engines/b3sum", "bin": "vb3",
        "configs": {"default": []},
    },
}


def simple(engine, cfg, **kw):
    def runs(tier):
        d = {"engine": engine, "cfg": cfg}
        d.update(kw)
        return [d]
    return runs


PLANS = {
    "C01": {"level": "exploration", "runs": simple("core", "asm-default")},
    "C02": {"level": "model_checking", "runs": simple("core", "asm-default")},
    "C03": {"level": "model_checking", "runs": simple("core", "asm-default")},
    "C09": {"level": "exploration", "runs": simple("core", "asm-default")},
    "C10": {"level": "model_checking", "runs": simple("core", "asm-default")},
    "C12": {"level": "fault_enumeration", "runs": simple("b3sum", "default")},
    "C13": {"level": "exploration", "runs": simple("b3sum", "default")},
    "C14": {"level": "exploration", "runs": simple("core", "asm-all")},
    "C15": {"level": "exploration", "runs": simple("core", "asm-all")},
    "C16": {"level": "model_checking", "runs": simple("core", "asm-all")},
    "C17": {"level": "model_checking", "runs": simple("core", "asm-all")},
    "C11": {"level": "fault_enumeration", "runs": simple("core", "asm-all", shims={"mmapfail": "VERIF_MMAPFAIL_SO"})},
}
