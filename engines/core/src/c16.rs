//! C16: (a) the RustCrypto-traits lane of the hasher BFS (see hbfs.rs / lanes.rs); (b) the
//! deprecated guts API against the spec's chunk and parent nodes.
#![allow(deprecated)]
use crate::subject::{self, P};
use vcommon::serde_json::{json, Value};
use vcommon::{Args, Report};

pub fn counters() -> Vec<u64> {
    let mut v: Vec<u64> = vec![0, 1, 2];
    for d in -20i64..=20 {
        v.push(((1i128 << 32) + d as i128) as u64);
    }
    v.extend([(1u64 << 33) - 1, 1u64 << 33, 1u64 << 53, (1u64 << 54) - 1, (1u64 << 63) - 1, 1u64 << 63]);
    for e in 0..40u64 {
        v.push(u64::MAX - e);
    }
    v.sort();
    v.dedup();
    v
}

fn splits(len: usize) -> Vec<Vec<usize>> {
    let mut v = vec![vec![len]];
    for p in [1usize, 63, 64, 65, len / 2, len.saturating_sub(1)] {
        if p > 0 && p < len {
            v.push(vec![p, len - p]);
        }
    }
    if len > 0 {
        // 64-byte steps, and 61-byte steps (never block aligned)
        for step in [64usize, 61] {
            let mut s = vec![];
            let mut left = len;
            while left > 0 {
                let k = step.min(left);
                s.push(k);
                left -= k;
            }
            v.push(s);
        }
        v.push(vec![0, len, 0]);
    }
    v.dedup();
    v
}

fn bad(rep: &mut Report, key: &str, what: String, case: Value) {
    let mut c = json!({"property": "C16", "engine": "core/guts", "check": key});
    c["case"] = case;
    rep.violation(key, what, c);
}

fn guts_cell(lname: &str, level: P, lens: &[usize], ctrs: &[u64], rep: &mut Report) {
    subject::force(Some(level));
    let data = vcommon::stream_b(subject::seed(), 1024);
    let mode = b3spec::Mode::hash();
    for &ctr in ctrs {
        for &len in lens {
            let node = b3spec::chunk_node(&mode, &data[..len], ctr);
            let exp_cv = node.chaining_value();
            for plan in splits(len) {
                // a root chunk is always chunk 0: is_root is only defined for counter 0
                for is_root in [false, true] {
                    if is_root && ctr != 0 {
                        continue;
                    }
                    rep.inc("evaluations");
                    rep.inc("spec_comparisons");
                    rep.inc("distinct_nontrivial");
                    let case = json!({"kind": "chunk", "level": lname, "counter": ctr.to_string(), "len": len, "plan": plan, "is_root": is_root});
                    let r = vcommon::catch(|| {
                        let mut cs = blake3::guts::ChunkState::new(ctr);
                        let mut at = 0;
                        let mut lens_ok = cs.len() == 0;
                        for &k in &plan {
                            cs.update(&data[at..at + k]);
                            at += k;
                            lens_ok &= cs.len() == at;
                        }
                        let c2 = cs.clone();
                        (*cs.finalize(is_root).as_bytes(), lens_ok, *c2.finalize(is_root).as_bytes())
                    });
                    let exp: [u8; 32] = if is_root {
                        let mut e = [0u8; 32];
                        e.copy_from_slice(&node.root_block(0)[..32]);
                        e
                    } else {
                        exp_cv
                    };
                    match r {
                        Ok((got, lens_ok, got2)) => {
                            if !lens_ok {
                                bad(rep, "guts::ChunkState::len:wrong", format!("len() wrong during {:?}", plan), case);
                            } else if got != exp || got2 != exp {
                                bad(rep, "guts::ChunkState::finalize:mismatch", format!("counter {} len {} plan {:?} is_root {} at {}: {} != {}", ctr, len, plan, is_root, lname, vcommon::hex(&got), vcommon::hex(&exp)), case);
                            }
                        }
                        Err(m) => bad(rep, "guts::ChunkState:panic", format!("counter {} len {} plan {:?} is_root {}: {}", ctr, len, plan, is_root, m), case),
                    }
                }
            }
        }
    }
    // parent_cv on CV pairs from the content alphabet
    let mut cvs: Vec<[u8; 32]> = vec![[0u8; 32], [0xff; 32]];
    let mut a = [0u8; 32];
    a.copy_from_slice(&data[..32]);
    cvs.push(a);
    a.copy_from_slice(&data[100..132]);
    cvs.push(a);
    for bit in 0..256 {
        let mut w = [0u8; 32];
        w[bit / 8] = 1 << (bit % 8);
        cvs.push(w);
    }
    let base = cvs[2];
    for (i, l) in cvs.iter().enumerate() {
        for (j, r) in cvs.iter().enumerate() {
            // all pairs among the first four; walking-one against the base on either side
            if !(i < 4 && j < 4) && !(i >= 4 && j == 2) && !(j >= 4 && i == 2) {
                continue;
            }
            let _ = base;
            for is_root in [false, true] {
                rep.inc("evaluations");
                rep.inc("spec_comparisons");
                rep.inc("distinct_nontrivial");
                let node = b3spec::parent_node(&mode, l, r);
                let exp: Vec<u8> = if is_root { node.root_block(0)[..32].to_vec() } else { node.chaining_value().to_vec() };
                let got = vcommon::catch(|| *blake3::guts::parent_cv(&blake3::Hash::from_bytes(*l), &blake3::Hash::from_bytes(*r), is_root).as_bytes());
                match got {
                    Ok(g) if g[..] == exp[..] => {}
                    other => bad(rep, "guts::parent_cv:mismatch", format!("pair ({},{}) is_root {} at {}: {:?}", i, j, is_root, lname, other.map(|g| vcommon::hex(&g))),
                        json!({"kind": "parent", "level": lname, "left": vcommon::hex(l), "right": vcommon::hex(r), "is_root": is_root})),
                }
            }
        }
    }
    subject::force(None);
}

pub fn run_guts(args: &Args, rep: &mut Report) {
    let t = args.thorough();
    let ctrs = counters();
    let lens_all: Vec<usize> = (0..=1024).collect();
    let lens_edge: Vec<usize> = vec![0, 1, 63, 64, 65, 127, 128, 129, 960, 1023, 1024];
    let levels = subject::levels();
    let mut work = vec![];
    for l in &levels {
        // every length at counter 0 and two others; edge lengths at every counter
        work.push((l.clone(), lens_all.clone(), if t { ctrs.clone() } else { vec![0u64, (1u64 << 32) - 1, 1u64 << 32, u64::MAX] }));
        work.push((l.clone(), lens_edge.clone(), ctrs.clone()));
    }
    let r = vcommon::par_run(args.jobs, work, rep, |((lname, level), lens, ctrs), local| guts_cell(lname, *level, lens, ctrs, local));
    rep.merge(r);
    rep.sample(json!({"kind": "chunk", "counter": ((1u64 << 32) - 1).to_string(), "len": 1023, "plan": [61, 61, 61, "..."], "is_root": false}));
    rep.sample(json!({"kind": "parent", "left": "walking-one bit 77", "right": "stream bytes", "is_root": true}));
}

pub fn replay_guts(v: &Value) -> bool {
    let case = &v["case"];
    let level = case["level"].as_str().unwrap_or("portable");
    let lv = subject::levels().into_iter().find(|l| l.0 == level).expect("level not available");
    let args = Args { prop: "C16".into(), tier: "quick".into(), seed: subject::seed(), report: String::new(), replay: None, jobs: 1, extra: Default::default() };
    let mut rep = Report::new(&args, "replay", "model_checking");
    if case["kind"].as_str() == Some("chunk") {
        let ctr: u64 = case["counter"].as_str().unwrap().parse().unwrap();
        let len = case["len"].as_u64().unwrap() as usize;
        guts_cell(level, lv.1, &[len], &[ctr], &mut rep);
    } else {
        guts_cell(level, lv.1, &[], &[], &mut rep);
    }
    for x in rep.violations.iter().take(3) {
        println!("violation {}: {}", x.key, x.summary);
    }
    rep.violations.iter().any(|x| Some(x.key.as_str()) == v["check"].as_str())
}
