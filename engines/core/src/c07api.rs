//! C07 at the API level of the Rust crate: the public functions run with their input and output
//! buffers flush against inaccessible pages (right and left), at every forced SIMD level. Covers
//! the assembly / intrinsics kernels as the crate really calls them (contiguous chunks, parents,
//! XOF output). One child process per level; a fault is the violation.
use crate::subject::{self, ModeSpec};
use std::io::Write;
use vcommon::serde_json::{json, Value};
use vcommon::{Args, Report};

const PAGE: usize = 4096;

struct Guarded {
    base: *mut u8,
    total: usize,
    ptr: *mut u8,
    len: usize,
}

impl Guarded {
    fn new(len: usize, right: bool) -> Guarded {
        let data_pages = (len + PAGE - 1) / PAGE + 1;
        let total = (data_pages + 2) * PAGE;
        unsafe {
            let base = libc::mmap(std::ptr::null_mut(), total, libc::PROT_READ | libc::PROT_WRITE, libc::MAP_PRIVATE | libc::MAP_ANONYMOUS, -1, 0) as *mut u8;
            assert!(base as isize != -1);
            assert_eq!(libc::mprotect(base as *mut _, PAGE, libc::PROT_NONE), 0);
            assert_eq!(libc::mprotect(base.add(total - PAGE) as *mut _, PAGE, libc::PROT_NONE), 0);
            let ptr = if right { base.add(total - PAGE - len) } else { base.add(PAGE) };
            Guarded { base, total, ptr, len }
        }
    }
    fn slice(&self) -> &[u8] {
        unsafe { std::slice::from_raw_parts(self.ptr, self.len) }
    }
    fn slice_mut(&mut self) -> &mut [u8] {
        unsafe { std::slice::from_raw_parts_mut(self.ptr, self.len) }
    }
}

impl Drop for Guarded {
    fn drop(&mut self) {
        unsafe {
            libc::munmap(self.base as *mut _, self.total);
        }
    }
}

fn lengths(thorough: bool) -> Vec<usize> {
    let mut v: Vec<usize> = (0..=300).collect();
    for k in 1..=(if thorough { 160 } else { 40 }) {
        for d in [-65i64, -64, -1, 0, 1, 63, 64, 65] {
            let n = k as i64 * 1024 + d;
            if n >= 0 {
                v.push(n as usize);
            }
        }
    }
    v.extend([100 * 1024 + 17, 256 * 1024, 256 * 1024 + 1]);
    v.sort();
    v.dedup();
    v
}

fn child(args: &Args, lname: &str) {
    let lv = subject::levels().into_iter().find(|l| l.0 == lname).expect("level");
    subject::force(Some(lv.1));
    let mut rep = Report::new(args, "core/api_guard", "exploration");
    let curpath = args.extra.get("cur").cloned().unwrap();
    let mut cur = std::fs::OpenOptions::new().create(true).write(true).truncate(true).open(&curpath).expect("cur");
    let mut announce = |s: &str| {
        use std::io::Seek;
        let _ = cur.seek(std::io::SeekFrom::Start(0));
        let mut b = s.as_bytes().to_vec();
        b.resize(300, b' ');
        let _ = cur.write_all(&b);
    };
    let start: u64 = args.extra.get("start").and_then(|s| s.parse().ok()).unwrap_or(0);
    let mut idx = 0u64;
    let data = vcommon::stream_a(300 * 1024);
    let modes = subject::primary_modes();
    for right in [true, false] {
        let side = if right { "right" } else { "left" };
        for (li, &n) in lengths(args.thorough()).iter().enumerate() {
            idx += 1;
            if idx <= start {
                continue;
            }
            let m = &modes[li % modes.len()];
            announce(&format!("{{\"level\":\"{}\",\"op\":\"hash+update+xof\",\"guard\":\"{}\",\"len\":{},\"mode\":\"{}\",\"index\":{}}}", lname, side, n, m.name(), idx));
            let mut g = Guarded::new(n, right);
            g.slice_mut().copy_from_slice(&data[..n]);
            rep.inc("evaluations");
            rep.inc("distinct_nontrivial");
            rep.inc("guarded_calls");
            let exp = b3spec::hash32(&m.spec(), &data[..n]);
            // one-shot on the guarded input
            let got = vcommon::catch(|| m.oneshot(g.slice()));
            if got != Ok(exp) {
                rep.violation("api-guard:wrong-result", format!("{} one-shot of {} guarded bytes at {}: wrong result", m.name(), n, lname), json!({"property": "C07", "engine": "core/api_guard", "case": {"level": lname, "len": n}, "check": "api-guard:wrong-result"}));
            }
            // incremental, split at an odd point, output into a guarded buffer of the exact size
            let mut h = m.hasher();
            let cut = n / 3;
            h.update(&g.slice()[..cut]);
            h.update(&g.slice()[cut..]);
            for (pos, olen) in [(0u64, 32usize), (63, 130), (64 * (1u64 << 32) - 64 * 9, 64 * 20 + 1)] {
                let mut out = Guarded::new(olen, right);
                let mut rd = h.finalize_xof();
                rd.set_position(pos);
                rd.fill(out.slice_mut());
                if pos == 0 && out.slice() != &exp[..] {
                    rep.violation("api-guard:wrong-result", format!("{} incremental hash of {} guarded bytes at {}: wrong result", m.name(), n, lname), json!({"property": "C07", "engine": "core/api_guard", "case": {"level": lname, "len": n}, "check": "api-guard:wrong-result"}));
                }
            }
        }
    }
    // the safe kernel entry point with an output slice that is too short: it may refuse (panic) or
    // do less, but it must not write past the slice (upstream's wrappers assert the bounds for exactly
    // this reason); the slice ends at an inaccessible page, so a write beyond it faults
    let platform = blake3::platform::Platform::detect();
    let key = [0x01234567u32; 8];
    for &n in &[1usize, 2, 3, 4, 5, 8, 9, 15, 16, 17, 31] {
        for &missing in &[1usize, 32, 33, 32 * n] {
            let olen = (32 * n).saturating_sub(missing);
            idx += 1;
            if idx <= start {
                continue;
            }
            announce(&format!("{{\"level\":\"{}\",\"op\":\"Platform::hash_many with a short out\",\"guard\":\"right\",\"len\":{},\"num_inputs\":{},\"index\":{}}}", lname, olen, n, idx));
            let blocks: Vec<[u8; 1024]> = (0..n).map(|i| { let mut b = [0u8; 1024]; b.copy_from_slice(&data[i * 1024..(i + 1) * 1024]); b }).collect();
            let inputs: Vec<&[u8; 1024]> = blocks.iter().collect();
            let mut out = Guarded::new(olen, true);
            rep.inc("evaluations");
            rep.inc("distinct_nontrivial");
            rep.inc("guarded_calls");
            rep.inc("short_out_calls");
            let _ = vcommon::catch(|| platform.hash_many(&inputs, &key, 0, blake3::IncrementCounter::Yes, 0, 1, 2, out.slice_mut()));
        }
    }
    // the dispatcher asked for zero blocks must write nothing (the widest kernel always writes at least
    // one block; the dispatcher is what makes a zero-block request safe)
    {
        idx += 1;
        if idx > start {
            announce(&format!("{{\"level\":\"{}\",\"op\":\"Platform::xof_many with zero blocks\",\"guard\":\"right\",\"len\":0,\"index\":{}}}", lname, idx));
            let mut out = Guarded::new(0, true);
            let block = [0x5au8; 64];
            rep.inc("evaluations");
            rep.inc("guarded_calls");
            let _ = vcommon::catch(|| platform.xof_many(&key, &block, 64, 0, 0x08, out.slice_mut()));
        }
    }
    announce("done");
    rep.write(&args.report);
}

pub fn run(args: &Args, rep: &mut Report) {
    if let Some(l) = args.extra.get("child-level") {
        child(args, l);
        std::process::exit(0);
    }
    for (lname, _) in subject::levels() {
        let mut start = 0u64;
        let mut faults = 0;
        loop {
            let rpt = format!("{}.apiguard.{}.json", args.report, lname);
            let cur = format!("{}.apiguard.{}.cur", args.report, lname);
            let _ = std::fs::remove_file(&rpt);
            let out = std::process::Command::new(std::env::current_exe().unwrap())
                .args(["--prop", "C07", "--tier", &args.tier, "--seed", &args.seed.to_string(), "--report", &rpt, "--child-level", &lname, "--cur", &cur, "--start", &start.to_string()])
                .output()
                .expect("spawn child");
            let ok = out.status.success() && std::fs::read_to_string(&rpt).ok().and_then(|t| vcommon::serde_json::from_str::<Value>(&t).ok()).map(|v| {
                for (k, n) in v["counters"].as_object().unwrap() {
                    rep.add(k, n.as_u64().unwrap_or(0));
                }
                for x in v["violations"].as_array().unwrap() {
                    rep.violation(x["key"].as_str().unwrap(), x["summary"].as_str().unwrap().to_string(), x["replay"].clone());
                }
                true
            }).unwrap_or(false);
            let _ = std::fs::remove_file(&rpt);
            if ok {
                break;
            }
            use std::os::unix::process::ExitStatusExt;
            let desc = std::fs::read_to_string(&cur).unwrap_or_default().trim().to_string();
            let v: Value = vcommon::serde_json::from_str(&desc).unwrap_or(json!({"level": lname, "raw": desc}));
            let idx = v["index"].as_u64().unwrap_or(u64::MAX);
            let n = v["len"].as_u64().unwrap_or(0);
            let key = format!("api-guard:{}:fault:guard-{}:len_mod_1024={}", lname, v["guard"].as_str().unwrap_or("?"), n % 1024);
            rep.violation(&key, format!("the crate faults (signal {:?}) at level {} with its input / output flush against an inaccessible page: {}", out.status.signal(), lname, desc),
                json!({"property": "C07", "engine": "core/api_guard", "case": v, "check": key}));
            faults += 1;
            if idx == u64::MAX || faults >= 20 {
                rep.cap(&format!("api-guard {}: stopped resuming after {} faults", lname, faults));
                break;
            }
            start = idx;
        }
        let _ = std::fs::remove_file(format!("{}.apiguard.{}.cur", args.report, lname));
    }
    rep.configs.push(subject::config_json());
    rep.rule = "the crate's one-shot functions, Hasher::update (two pieces) and OutputReader::fill at three positions (one across block counter 2^32) with the input and the exact-size output buffer flush against a PROT_NONE page, once on the right and once on the left, for every input length 0..=300 and k*1024+d (k <= 40 quick / 160 thorough), at every forced SIMD level, in one child process per level; results also compared with the spec; plus the safe Platform::hash_many given an output slice 1 byte .. all slots too short (it may panic, it must not write past the slice); Platform::xof_many asked for zero blocks (must write nothing); non-trivial = distinct (level, side, length)".into();
    rep.sample(json!({"level": "avx512", "guard": "right", "len": 17 * 1024 + 1, "ops": ["hash(input)", "update(input[..n/3])", "update(input[n/3..])", "finalize_xof().fill(out) at 0, 63, 64*(2^32-9)"]}));
}

pub fn replay(_v: &Value) -> bool {
    let args = Args { prop: "C07".into(), tier: "quick".into(), seed: subject::seed(), report: "/verif/out/c07api-replay.json".into(), replay: None, jobs: 1, extra: Default::default() };
    let mut rep = Report::new(&args, "replay", "exploration");
    run(&args, &mut rep);
    for x in rep.violations.iter().take(3) {
        println!("violation {}: {}", x.key, x.summary);
    }
    !rep.violations.is_empty()
}
