//! C01 (and the one-shot part of C04): one-shot hash / keyed_hash / derive_key against b3spec,
//! over every length of a range plus a lattice, per mode, stream and forced SIMD level.
use crate::subject::{self, ModeSpec, P};
use std::collections::HashSet;
use std::sync::Arc;
use vcommon::serde_json::{json, Value};
use vcommon::{Args, Report};

pub fn full_range(thorough: bool) -> usize {
    if thorough { 320 * 1024 + 1 } else { 65 * 1024 + 1 }
}

pub fn lengths(thorough: bool) -> Vec<usize> {
    let mut set: std::collections::BTreeSet<usize> = (0..=full_range(thorough)).collect();
    let ds: [i64; 9] = [-65, -64, -63, -1, 0, 1, 63, 64, 65];
    let kmax = if thorough { 2048 } else { 512 };
    let mut ks: Vec<i64> = (1..=kmax).collect();
    let jmax = if thorough { 14 } else { 10 };
    for j in 0..=jmax {
        ks.push(1 << j);
    }
    for m in [3i64, 5, 6, 7, 9, 11, 13, 15, 17, 31, 33, 63] {
        for w in [4i64, 8, 16] {
            ks.push(w * m);
        }
    }
    for k in ks {
        for d in ds {
            let n = k * 1024 + d;
            if n >= 0 {
                set.insert(n as usize);
            }
        }
    }
    set.into_iter().collect()
}

pub fn lite_lengths() -> Vec<usize> {
    vec![
        0, 1, 63, 64, 65, 1023, 1024, 1025, 2048, 2049, 3072, 3073, 4096, 4097, 5121, 8192, 8193, 16384, 16385, 17409,
        32768, 32769, 65537,
    ]
}

struct Table {
    mode: ModeSpec,
    stream: String,
    data: Arc<Vec<u8>>,
    expected: Vec<(usize, [u8; 32])>,
}

fn build_table(mode: &ModeSpec, stream: &str, seed: u64, lens: &[usize], rep: &mut Report) -> Table {
    let max = *lens.iter().max().unwrap_or(&0);
    let data = Arc::new(vcommon::stream(stream, seed, max));
    let mut oracle = b3spec::StreamOracle::new(mode.spec(), (*data).clone());
    let mut expected = Vec::with_capacity(lens.len());
    for (i, &n) in lens.iter().enumerate() {
        let node = oracle.prefix(n);
        let mut h = [0u8; 32];
        h.copy_from_slice(&node.root_block(0)[..32]);
        // re-derive a sample of entries without the memo (the memo is only an optimisation)
        if i % 4099 == 0 || n == max {
            let plain = b3spec::node(&oracle.mode, &data[..n], 0);
            if plain != node {
                eprintln!("ORACLE-MEMO-MISMATCH at len {}", n);
                std::process::exit(2);
            }
            rep.inc("oracle_memo_rechecks");
        }
        expected.push((n, h));
    }
    Table { mode: mode.clone(), stream: stream.to_string(), data, expected }
}

fn case_json(mode: &ModeSpec, stream: &str, level: &str, len: usize) -> Value {
    json!({"property": "C01", "engine": "core/oneshot", "subject": "one-shot",
           "config": {"flavour": subject::flavour(), "features": subject::features(), "level": level},
           "mode": mode.json(), "stream": stream, "seed": subject::seed(), "ops": [["oneshot", len]]})
}

fn run_table(t: &Table, lname: &str, level: P, rep: &mut Report, seen: &mut HashSet<u128>) {
    subject::force(Some(level));
    // the same bytes at a different place in memory: start addresses 1 and 9 past a 64-byte boundary
    // (the sweep's own buffer is allocator-aligned); the result may depend on the bytes only
    let max = t.expected.iter().map(|e| e.0).max().unwrap_or(0);
    let mut moved = vec![0u8; max + 128];
    let base = (64 - (moved.as_ptr() as usize % 64)) % 64;
    for (j, &(n, exp)) in t.expected.iter().enumerate() {
        let input = &t.data[..n];
        let got = vcommon::catch(|| t.mode.oneshot(input));
        let plain_ok = got == Ok(exp);
        rep.inc("evaluations");
        rep.inc("spec_comparisons");
        if n > 0 {
            let desc = format!("{}|{}|{}|{}", lname, t.mode.name(), t.stream, n);
            if seen.insert(vcommon::fingerprint(desc.as_bytes())) {
                rep.inc("distinct_nontrivial");
            }
        }
        match got {
            Ok(h) if h == exp => {}
            Ok(h) => {
                let mut rj = case_json(&t.mode, &t.stream, lname, n);
                rj["expected"] = json!(vcommon::hex(&exp));
                rj["observed"] = json!(vcommon::hex(&h));
                rep.violation(
                    &format!("oneshot:{}:mismatch", t.mode.json()["kind"].as_str().unwrap()),
                    format!("{} of {} bytes of stream {} at level {} differs from the specification", t.mode.name(), n, t.stream, lname),
                    rj,
                );
            }
            Err(msg) => {
                let mut rj = case_json(&t.mode, &t.stream, lname, n);
                rj["expected"] = json!(vcommon::hex(&exp));
                rj["observed"] = json!(format!("panic: {}", msg));
                rep.violation(
                    &format!("oneshot:{}:panic", t.mode.json()["kind"].as_str().unwrap()),
                    format!("{} of {} bytes panics at level {}: {}", t.mode.name(), n, lname, msg),
                    rj,
                );
            }
        }
        // (only where the plain call is right: otherwise the report above already says what is wrong)
        if j % 3 == 0 && plain_ok {
            let off = base + if j % 2 == 0 { 1 } else { 9 };
            moved[off..off + n].copy_from_slice(&t.data[..n]);
            let got = vcommon::catch(|| t.mode.oneshot(&moved[off..off + n]));
            rep.inc("evaluations");
            rep.inc("misaligned_inputs");
            if got != Ok(exp) {
                let mut rj = case_json(&t.mode, &t.stream, lname, n);
                rj["expected"] = json!(vcommon::hex(&exp));
                rj["observed"] = json!(format!("{:?}", got.map(|h| vcommon::hex(&h))));
                rj["input_address_mod_64"] = json!(off - base);
                rep.violation("oneshot:misaligned-input", format!("{} of {} bytes of stream {} at level {} starting {} bytes past a 64-byte boundary differs from the specification (or panics)", t.mode.name(), n, t.stream, lname, off - base), rj);
            }
        }
    }
    subject::force(None);
}

/// Lengths of the cross-configuration ledger (fixed, independent of tier).
pub fn ledger_lengths() -> Vec<usize> {
    let mut v = lite_lengths();
    for k in [3usize, 5, 7, 9, 15, 17, 31, 33, 63, 65, 100, 127, 129, 255, 257] {
        v.push(k * 1024);
        v.push(k * 1024 + 1);
    }
    v.sort();
    v.dedup();
    v
}

/// One ledger entry: a 128-bit fingerprint of (mode, length, digest); entries are summed
/// (wrapping) so that the ledger does not depend on evaluation order.
pub fn ledger_entry(mode_kind: &str, len: usize, digest: &[u8; 32]) -> u128 {
    vcommon::fingerprint(format!("{}|{}|{}", mode_kind, len, vcommon::hex(digest)).as_bytes())
}

fn ledger(rep: &mut Report) {
    let lens = ledger_lengths();
    let data = vcommon::stream_a(*lens.last().unwrap());
    let mut out = vcommon::serde_json::Map::new();
    for (lname, level) in subject::levels() {
        subject::force(Some(level));
        let mut sum: u128 = 0;
        for m in subject::primary_modes() {
            let kind = m.json()["kind"].as_str().unwrap().to_string();
            for &n in &lens {
                if let Ok(d) = vcommon::catch(|| m.oneshot(&data[..n])) {
                    sum = sum.wrapping_add(ledger_entry(&kind, n, &d));
                }
                rep.inc("ledger_entries");
            }
        }
        subject::force(None);
        out.insert(lname, json!(format!("{:032x}", sum)));
    }
    rep.extra.insert("ledger".into(), Value::Object(out));
}

/// The one-shot functions are functions of the *contents* of their arguments: the same buffers
/// (same address, same length) are overwritten in place with different contents between calls, and
/// calls with different arguments are interleaved. A memo keyed on addresses or lengths, or any
/// state carried from one call to the next, shows up here.
fn purity(rep: &mut Report) {
    let levels = subject::levels();
    let a = vcommon::stream_a(70_000);
    let b = vcommon::stream_b(subject::seed(), 70_000);
    for (lname, level) in levels {
        subject::force(Some(level));
        for &n in &[0usize, 1, 64, 65, 1024, 1025, 4097, 65537] {
            let mut input = vec![0u8; n];
            let mut key = [0u8; 32];
            for &clen in &[0usize, 1, 31, 47, 64, 1025] {
                let mut ctx = String::with_capacity(clen + 8);
                for round in 0..4usize {
                    // overwrite all three argument buffers in place
                    let src = if round % 2 == 0 { &a } else { &b };
                    input.copy_from_slice(&src[round..round + n]);
                    key.copy_from_slice(&src[100 + round..132 + round]);
                    ctx.clear();
                    for i in 0..clen {
                        ctx.push((b'a' + ((i * 7 + round * 3) % 26) as u8) as char);
                    }
                    for kind in 0..3 {
                        let m = match kind {
                            0 => ModeSpec::Hash,
                            1 => ModeSpec::Keyed(key),
                            _ => ModeSpec::Derive(ctx.clone()),
                        };
                        let exp = b3spec::hash32(&m.spec(), &input);
                        // call through the borrowed buffers themselves, not through copies
                        let got = vcommon::catch(|| match kind {
                            0 => *blake3::hash(&input).as_bytes(),
                            1 => *blake3::keyed_hash(&key, &input).as_bytes(),
                            _ => blake3::derive_key(&ctx, &input),
                        });
                        rep.inc("evaluations");
                        rep.inc("distinct_nontrivial");
                        rep.inc("spec_comparisons");
                        rep.inc("purity_calls");
                        if got != Ok(exp) {
                            let mut rj = case_json(&m, "in-place", &lname, n);
                            rj["purity"] = json!({"round": round, "context_len": clen});
                            rep.violation(&format!("oneshot:{}:depends-on-call-history", m.json()["kind"].as_str().unwrap()),
                                format!("{} of {} bytes gives a wrong result when the same argument buffers are reused with new contents (round {}, context length {}, level {})", m.json()["kind"], n, round, clen, lname), rj);
                        }
                        if kind == 2 {
                            // and the incremental constructor shares the context hashing
                            let g2 = vcommon::catch(|| *blake3::Hasher::new_derive_key(&ctx).update(&input).finalize().as_bytes());
                            if g2 != Ok(exp) {
                                let rj = case_json(&m, "in-place", &lname, n);
                                rep.violation("new_derive_key:depends-on-call-history", format!("Hasher::new_derive_key with a reused context buffer (round {}, context length {})", round, clen), rj);
                            }
                        }
                    }
                }
            }
        }
        subject::force(None);
    }
}

fn huge_data(max: usize) -> Vec<u8> {
    // 251-periodic paint, generated block-wise (stream_a is byte-wise and would take a while)
    let period: Vec<u8> = (0..251 * 4096).map(|i| (i % 251) as u8).collect();
    let mut v = Vec::with_capacity(max);
    while v.len() < max {
        let take = (max - v.len()).min(period.len());
        v.extend_from_slice(&period[..take]);
    }
    v
}

/// C02 at the 4 GiB boundary (thorough tier, best level, keyed mode): one update of more than 2^32
/// bytes, the same bytes in uneven pieces, and the reader adapter; count() after every piece and the
/// final hash / extended output against the spec.
pub fn huge_hasher(rep: &mut Report, all_plans: bool) {
    let levels = subject::levels();
    let (lname, level) = levels.last().unwrap().clone();
    let n = (1usize << 32) + 3 * 1024 + 77;
    let mode = ModeSpec::Keyed(*vcommon::TEST_KEY);
    let owned = huge_data(n);
    let data = &owned;
    // the spec value, with the aligned 2^28-byte subtrees computed on separate threads; the same
    // composition is first checked at a small scale against the plain recursive definition
    let small = 16 * 65536 + 3 * 1024 + 77;
    if b3spec::node_parallel16(&mode.spec(), &data[..small], 65536).root_bytes(0, 100) != b3spec::node(&mode.spec(), &data[..small], 0).root_bytes(0, 100) {
        eprintln!("ORACLE-ANCHOR-FAILED: parallel composition of the spec differs from the recursive definition");
        std::process::exit(2);
    }
    let node = b3spec::node_parallel16(&mode.spec(), data, 1 << 28);
    let exp = node.root_bytes(0, 100);
    subject::force(Some(level));
    let plans: [(&str, Vec<usize>); 4] = [
        ("one update", vec![n]),
        ("2^32 then the rest", vec![1usize << 32, n - (1usize << 32)]),
        ("uneven pieces", vec![1, (1usize << 31) - 1, 1025, (1usize << 31) + 64, n - (1usize << 32) - 1025 - 64]),
        ("2^32 - 1 first", vec![(1usize << 32) - 1, 1, n - (1usize << 32)]),
    ];
    for (pi, (what, pieces)) in plans.iter().enumerate() {
        if !all_plans && pi % 2 == 1 {
            continue;
        }
        assert_eq!(pieces.iter().sum::<usize>(), n);
        rep.inc("evaluations");
        rep.inc("distinct_nontrivial");
        rep.inc("spec_comparisons");
        rep.inc("huge_histories");
        let r = vcommon::catch(|| {
            let mut h = mode.hasher();
            let mut at = 0usize;
            for &k in pieces {
                h.update(&data[at..at + k]);
                at += k;
                if h.count() != at as u64 {
                    return Err(format!("count() is {} after {} bytes", h.count(), at));
                }
            }
            let mut out = [0u8; 100];
            h.finalize_xof().fill(&mut out);
            if out[..] != exp[..] || h.finalize().as_bytes()[..] != exp[..32] {
                return Err("hash / extended output differs from the spec".to_string());
            }
            Ok(())
        });
        let bad = match r {
            Ok(Ok(())) => None,
            Ok(Err(m)) => Some(m),
            Err(m) => Some(format!("panic: {}", m)),
        };
        if let Some(m) = bad {
            rep.violation("Hasher:huge-input", format!("keyed Hasher at {} fed {} bytes as {} {:?}: {}", lname, n, what, pieces, m),
                json!({"property": "C02", "engine": "core/hasher_bfs", "huge": {"pieces": pieces, "level": lname}, "check": "Hasher:huge-input"}));
        }
    }
    #[cfg(feature = "std")]
    if all_plans {
        rep.inc("evaluations");
        rep.inc("huge_histories");
        let r = vcommon::catch(|| {
            let mut h = mode.hasher();
            h.update_reader(std::io::Cursor::new(&data[..])).map_err(|e| e.to_string())?;
            if h.count() != n as u64 {
                return Err(format!("count() is {} after update_reader of {} bytes", h.count(), n));
            }
            if h.finalize().as_bytes()[..] != exp[..32] {
                return Err("hash differs from the spec".to_string());
            }
            Ok(())
        });
        if r != Ok(Ok(())) {
            rep.violation("Hasher:huge-input", format!("keyed Hasher at {} update_reader of {} bytes: {:?}", lname, n, r),
                json!({"property": "C02", "engine": "core/hasher_bfs", "huge": {"pieces": ["update_reader", n], "level": lname}, "check": "Hasher:huge-input"}));
        }
    }
    subject::force(None);
}

/// Inputs beyond 2 GiB / 4 GiB (best level): 32-bit truncations of lengths, offsets or chunk counters
/// only show up here. Quick: 2^32+3149 bytes in hash and keyed mode; thorough: also lengths around
/// 2^31 and 2^32 (prefixes of the same buffer, spec values by the memoising oracle).
fn huge(rep: &mut Report, thorough: bool) {
    let levels = subject::levels();
    let (lname, level) = levels.last().unwrap().clone();
    let n = (1usize << 32) + 3 * 1024 + 77;
    let data = huge_data(n);
    let small = 16 * 65536 + 3 * 1024 + 77;
    let hm = ModeSpec::Hash;
    if b3spec::node_parallel16(&hm.spec(), &data[..small], 65536).root_bytes(0, 64) != b3spec::node(&hm.spec(), &data[..small], 0).root_bytes(0, 64) {
        eprintln!("ORACLE-ANCHOR-FAILED: parallel composition of the spec differs from the recursive definition");
        std::process::exit(2);
    }
    subject::force(Some(level));
    for mode in [ModeSpec::Hash, ModeSpec::Keyed(*vcommon::TEST_KEY)] {
        let node = b3spec::node_parallel16(&mode.spec(), &data, 1 << 28);
        let mut exp = [0u8; 32];
        exp.copy_from_slice(&node.root_block(0)[..32]);
        let got = vcommon::catch(|| mode.oneshot(&data[..n]));
        rep.inc("evaluations");
        rep.inc("distinct_nontrivial");
        rep.inc("spec_comparisons");
        rep.inc("huge_inputs");
        if got != Ok(exp) {
            let mut rj = case_json(&mode, "A", &lname, n);
            rj["huge"] = json!(true);
            rj["observed"] = json!(format!("{:?}", got.map(|h| vcommon::hex(&h))));
            rep.violation("oneshot:hash:huge-input", format!("{} of {} bytes at {}: differs from the spec or panics", mode.name(), n, lname), rj);
        }
    }
    if thorough {
        let lens: [usize; 4] = [(1usize << 31) - 1, (1usize << 31) + 1, (1usize << 32) - 1, (1usize << 32) + 1025];
        let mode = ModeSpec::Hash;
        let mut oracle = b3spec::StreamOracle::new(mode.spec(), Vec::new());
        oracle.data = data;
        for &n in &lens {
            let node = oracle.prefix(n);
            let mut exp = [0u8; 32];
            exp.copy_from_slice(&node.root_block(0)[..32]);
            let got = vcommon::catch(|| mode.oneshot(&oracle.data[..n]));
            rep.inc("evaluations");
            rep.inc("distinct_nontrivial");
            rep.inc("spec_comparisons");
            rep.inc("huge_inputs");
            if got != Ok(exp) {
                let mut rj = case_json(&mode, "A", &lname, n);
                rj["huge"] = json!(true);
                rj["observed"] = json!(format!("{:?}", got.map(|h| vcommon::hex(&h))));
                rep.violation("oneshot:hash:huge-input", format!("hash of {} bytes at {}: differs from the spec or panics", n, lname), rj);
            }
        }
    }
    subject::force(None);
}

pub fn run(args: &Args, rep: &mut Report) {
    let thorough = args.thorough();
    ledger(rep);
    let lens = lengths(thorough);
    let lite = lite_lengths();
    let streams = ["A", "B"];
    // phase 1: spec tables
    let mut specs: Vec<(ModeSpec, String, bool)> = vec![];
    for m in subject::primary_modes() {
        for s in streams {
            specs.push((m.clone(), s.to_string(), true));
        }
    }
    for m in subject::secondary_modes(thorough) {
        specs.push((m, "A".to_string(), false));
    }
    // degenerate contents (all zero, all ones, every block / every chunk identical, sparse) on the lattice
    for m in subject::primary_modes() {
        for s in ["Z", "F", "P64", "P1024", "S"] {
            specs.push((m.clone(), s.to_string(), false));
        }
    }
    if thorough {
        // every context length 0..=2100 on a reduced length set
        for n in 0..=2100usize {
            specs.push((ModeSpec::Derive(subject::context_of_len(n)), "ctx".to_string(), false));
        }
    }
    let seed = args.seed;
    let tables: std::sync::Mutex<Vec<Table>> = std::sync::Mutex::new(vec![]);
    let r1 = vcommon::par_run(args.jobs, specs, rep, |(m, s, full), local| {
        let t = if s == "ctx" {
            build_table(m, "A", seed, &[0, 1, 1025, 4097], local)
        } else if *full {
            build_table(m, s, seed, &lens, local)
        } else {
            build_table(m, s, seed, &lite, local)
        };
        tables.lock().unwrap().push(t);
    });
    rep.merge(r1);
    let tables = tables.into_inner().unwrap();
    // phase 2: every table at every level
    let levels = subject::levels();
    let mut items = vec![];
    for (ti, _) in tables.iter().enumerate() {
        for l in &levels {
            items.push((ti, l.clone()));
        }
    }
    // biggest first for load balance
    items.sort_by_key(|(ti, l)| std::cmp::Reverse((tables[*ti].expected.len(), l.0 == "portable")));
    let r2 = vcommon::par_run(args.jobs, items, rep, |(ti, (lname, level)), local| {
        let mut seen = HashSet::new();
        run_table(&tables[*ti], lname, *level, local, &mut seen);
    });
    rep.merge(r2);
    // the history-dependence sweep only means something if the plain sweep is clean
    if rep.violations.is_empty() {
        purity(rep);
    }
    if thorough || args.extra.contains_key("huge") {
        huge(rep, thorough);
    }
    rep.configs.push(subject::config_json());
    rep.rule = format!(
        "every length 0..={} plus the lattice k*1024+d (k<={}, 2^j chunks j<={}, {{4,8,16}}*m chunks; d in -65,-64,-63,-1,0,1,63,64,65) \
         x streams A,B x primary modes (hash, keyed(test key), derive(test context)) x every forced SIMD level; secondary keys/contexts and five degenerate contents (zeros, ones, 64- and 1024-periodic, sparse) \
         on {} lattice lengths; every third length again from a start address 1 or 9 bytes past a 64-byte boundary; a purity sweep that overwrites the same input / key / context buffers in place between calls; one-shot hash and keyed_hash of 2^32+3149 bytes at the best level (thorough: also 2^31+-1, 2^32-1, 2^32+1025); non-trivial = distinct (level, mode, stream, length) with length > 0",
        full_range(thorough), if thorough { 2048 } else { 512 }, if thorough { 14 } else { 10 }, lite.len()
    );
    for (ti, l) in [(0usize, 0usize), (1, levels.len() - 1), (2, levels.len() / 2)] {
        if ti < tables.len() {
            let t = &tables[ti];
            let n = t.expected[t.expected.len() / 2].0;
            rep.sample(json!({"mode": t.mode.json(), "stream": t.stream, "level": levels[l].0, "ops": [["oneshot", n]],
                              "expected": vcommon::hex(&t.expected[t.expected.len() / 2].1)}));
        }
    }
    rep.assumptions.push("input content restricted to streams A (251-periodic paint) and B (xorshift64*) on the full range, plus five degenerate contents on the lattice".into());
    rep.assumptions.push(format!("inputs longer than {} bytes are not explored", lens.last().unwrap()));
}

pub fn replay(v: &Value) -> bool {
    if v["purity"].is_object() {
        let args = Args { prop: "C01".into(), tier: "quick".into(), seed: subject::seed(), report: String::new(), replay: None, jobs: 1, extra: Default::default() };
        let mut rep = Report::new(&args, "replay", "exploration");
        purity(&mut rep);
        for x in rep.violations.iter().take(3) {
            println!("violation {}: {}", x.key, x.summary);
        }
        return !rep.violations.is_empty();
    }
    if v["huge"].as_bool() == Some(true) {
        let args = Args { prop: "C01".into(), tier: "quick".into(), seed: subject::seed(), report: String::new(), replay: None, jobs: 1, extra: Default::default() };
        let mut rep = Report::new(&args, "replay", "exploration");
        huge(&mut rep, true);
        for x in rep.violations.iter().take(3) {
            println!("violation {}: {}", x.key, x.summary);
        }
        return !rep.violations.is_empty();
    }
    let mode = ModeSpec::from_json(&v["mode"]);
    let stream = v["stream"].as_str().unwrap_or("A");
    let level = v["config"]["level"].as_str().unwrap_or("");
    let len = v["ops"][0][1].as_u64().unwrap() as usize;
    let seed = v["seed"].as_u64().unwrap_or(1);
    let data = vcommon::stream(stream, seed, len);
    let lv = subject::levels().into_iter().find(|l| l.0 == level);
    subject::force(lv.map(|l| l.1));
    let exp = b3spec::hash32(&mode.spec(), &data);
    let got = match v["input_address_mod_64"].as_u64() {
        Some(k) => {
            let mut moved = vec![0u8; len + 128];
            let off = (64 - (moved.as_ptr() as usize % 64)) % 64 + k as usize;
            moved[off..off + len].copy_from_slice(&data);
            vcommon::catch(|| mode.oneshot(&moved[off..off + len]))
        }
        None => vcommon::catch(|| mode.oneshot(&data)),
    };
    subject::force(None);
    println!("expected {}", vcommon::hex(&exp));
    match got {
        Ok(h) => {
            println!("observed {}", vcommon::hex(&h));
            h != exp
        }
        Err(m) => {
            println!("observed panic: {}", m);
            true
        }
    }
}
