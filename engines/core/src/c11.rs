//! C11: reader / mmap / Write adapters. (a) update_reader over a scripted Read whose every call
//! answers one of a small menu; all answer sequences with a bounded number of deviations from
//! "fill the buffer"; (b) update_mmap / update_mmap_rayon / update_reader(File) on files of every
//! length in ranges around the thresholds and on special files, also with mmap forced to fail.
use crate::subject::{self, ModeSpec};
use std::io::{self, Read};
use vcommon::serde_json::{json, Value};
use vcommon::{Args, Report};

#[derive(Clone, Copy, Debug, PartialEq, Eq, Hash)]
pub enum Ans {
    Full,
    Short(usize),
    Interrupted,
    /// a hard error of the given kind (index into ERR_KINDS)
    ErrOther,
    ErrKind(usize),
    EarlyEof,
}

/// Every non-Interrupted error must reach the caller, whatever its kind.
pub const ERR_KINDS: [io::ErrorKind; 7] = [
    io::ErrorKind::Other, io::ErrorKind::UnexpectedEof, io::ErrorKind::WouldBlock, io::ErrorKind::TimedOut, io::ErrorKind::BrokenPipe,
    io::ErrorKind::InvalidData, io::ErrorKind::PermissionDenied,
];

pub const MENU: [Ans; 14] = [
    Ans::Full, Ans::Short(1), Ans::Short(63), Ans::Short(1024), Ans::Short(65535), Ans::Interrupted, Ans::ErrOther, Ans::EarlyEof,
    Ans::ErrKind(1), Ans::ErrKind(2), Ans::ErrKind(3), Ans::ErrKind(4), Ans::ErrKind(5), Ans::ErrKind(6),
];

impl Ans {
    fn json(&self) -> Value {
        match self {
            Ans::Full => json!("full"),
            Ans::Short(k) => json!(["short", k]),
            Ans::Interrupted => json!("interrupted"),
            Ans::ErrOther => json!("error"),
            Ans::ErrKind(k) => json!(["error_kind", k]),
            Ans::EarlyEof => json!("eof"),
        }
    }
    fn from_json(v: &Value) -> Ans {
        if let Some(s) = v.as_str() {
            match s {
                "interrupted" => Ans::Interrupted,
                "error" => Ans::ErrOther,
                "eof" => Ans::EarlyEof,
                _ => Ans::Full,
            }
        } else if v[0].as_str() == Some("error_kind") {
            Ans::ErrKind(v[1].as_u64().unwrap_or(0) as usize)
        } else {
            Ans::Short(v[1].as_u64().unwrap_or(1) as usize)
        }
    }
}

/// What the scripted reader saw and did.
#[derive(Default, Debug)]
struct Trace {
    calls: usize,
    yielded: Vec<usize>,
    ended: bool,
    errored: bool,
    empty_buffer: bool,
    called_after_end: bool,
    err_kind: Option<io::ErrorKind>,
}

struct Scripted<'a> {
    data: &'a [u8],
    pos: usize,
    script: &'a [Ans],
    trace: &'a mut Trace,
}

impl<'a> Read for Scripted<'a> {
    fn read(&mut self, buf: &mut [u8]) -> io::Result<usize> {
        let i = self.trace.calls;
        self.trace.calls += 1;
        if buf.is_empty() {
            self.trace.empty_buffer = true;
        }
        if self.trace.ended || self.trace.errored {
            self.trace.called_after_end = true;
        }
        let a = self.script.get(i).copied().unwrap_or(Ans::Full);
        let rem = self.data.len() - self.pos;
        let n = match a {
            Ans::Full => buf.len().min(rem),
            Ans::Short(k) => k.min(buf.len()).min(rem),
            Ans::Interrupted => return Err(io::Error::new(io::ErrorKind::Interrupted, "injected interrupt")),
            Ans::ErrOther => {
                self.trace.errored = true;
                self.trace.err_kind = Some(io::ErrorKind::Other);
                return Err(io::Error::new(io::ErrorKind::Other, "injected failure"));
            }
            Ans::ErrKind(k) => {
                self.trace.errored = true;
                self.trace.err_kind = Some(ERR_KINDS[k % ERR_KINDS.len()]);
                return Err(io::Error::new(ERR_KINDS[k % ERR_KINDS.len()], "injected failure"));
            }
            Ans::EarlyEof => 0,
        };
        if n == 0 {
            self.trace.ended = true;
            return Ok(0);
        }
        buf[..n].copy_from_slice(&self.data[self.pos..self.pos + n]);
        self.pos += n;
        self.trace.yielded.push(n);
        Ok(n)
    }
}

struct Cell<'a> {
    mode: &'a ModeSpec,
    data: &'a [u8],
    prefix: usize,
    oracle: b3spec::StreamOracle,
}

fn rj(c: &Cell, script: &[Ans], key: &str, exp: String, obs: String) -> Value {
    json!({"property": "C11", "engine": "core/adapters", "subject": "Hasher::update_reader", "mode": c.mode.json(), "stream": "A",
           "seed": subject::seed(), "stream_len": c.data.len() - c.prefix, "prefix": c.prefix,
           "script": script.iter().map(|a| a.json()).collect::<Vec<_>>(), "check": key, "expected": exp, "observed": obs})
}

/// One execution under `script` (default answer afterwards). Returns the number of read calls.
fn run_script(c: &mut Cell, script: &[Ans], rep: &mut Report) -> (usize, Option<(String, String, String)>) {
    let mut trace = Trace::default();
    let mut h = c.mode.hasher();
    h.update(&c.data[..c.prefix]);
    let mut reference = h.clone();
    let body = &c.data[c.prefix..];
    let res = vcommon::catch(|| {
        let rd = Scripted { data: body, pos: 0, script, trace: &mut trace };
        h.update_reader(rd).map(|_| ())
    });
    rep.inc("evaluations");
    let calls = trace.calls;
    let res = match res {
        Ok(r) => r,
        Err(m) => return (calls, Some(("update_reader:panic".into(), "no panic".into(), m))),
    };
    if trace.empty_buffer {
        return (calls, Some(("update_reader:empty-buffer-read".into(), "non-empty buffer".into(), "read(&mut [])".into())));
    }
    if trace.called_after_end {
        return (calls, Some(("update_reader:reads-after-eof-or-error".into(), "no read after Ok(0)/Err".into(), "read again".into())));
    }
    match (&res, trace.errored) {
        (Ok(()), false) => {
            if !trace.ended {
                return (calls, Some(("update_reader:returns-before-eof".into(), "reads until Ok(0)".into(), "returned Ok early".into())));
            }
        }
        (Err(e), true) => {
            if Some(e.kind()) != trace.err_kind || e.to_string() != "injected failure" {
                return (calls, Some(("update_reader:error-altered".into(), "the reader's error".into(), format!("{:?}", e))));
            }
        }
        (Ok(()), true) => return (calls, Some(("update_reader:error-swallowed".into(), "Err(injected failure)".into(), "Ok".into()))),
        (Err(e), false) => return (calls, Some(("update_reader:spurious-error".into(), "Ok".into(), format!("Err({})", e)))),
    }
    // the hasher reflects exactly the bytes yielded, piece by piece
    let mut at = 0;
    for &n in &trace.yielded {
        reference.update(&body[at..at + n]);
        at += n;
    }
    let total = c.prefix + at;
    let got = vcommon::catch(|| (h.count(), *h.finalize().as_bytes()));
    let node = c.oracle.prefix(total);
    rep.inc("spec_comparisons");
    match got {
        Ok((cnt, hash)) => {
            if cnt != total as u64 {
                return (calls, Some(("update_reader:count-wrong".into(), format!("{}", total), format!("{}", cnt))));
            }
            if hash[..] != node.root_block(0)[..32] {
                return (calls, Some(("update_reader:hash-wrong".into(), format!("spec hash of the {} bytes yielded", total), vcommon::hex(&hash))));
            }
        }
        Err(m) => return (calls, Some(("update_reader:hasher-unusable".into(), "usable hasher".into(), m))),
    }
    // Observational equality with update() on the same pieces (the internal representation is the
    // adapter's business: it may legitimately batch short reads), including after further input.
    let same = vcommon::catch(|| {
        let mut a = [0u8; 131];
        let mut b = [0u8; 131];
        h.finalize_xof().fill(&mut a);
        reference.finalize_xof().fill(&mut b);
        let mut h2 = h.clone();
        let mut r2 = reference.clone();
        h2.update(&c.data[..c.data.len().min(1500)]);
        r2.update(&c.data[..c.data.len().min(1500)]);
        a == b && h2.finalize() == r2.finalize()
    });
    if same != Ok(true) {
        return (calls, Some(("update_reader:differs-from-update".into(), "same outputs as update() with the same pieces".into(), format!("{:?}", same))));
    }
    (calls, None)
}

/// Deviation-bounded exploration, iterated over the bound (0, 1, 2, ...) so that the first
/// counterexample reported is one with the fewest deviations. A run is recorded only in the
/// iteration whose bound equals its number of deviations; shallower runs are re-executed to learn
/// how many read calls they make (the positions at which a further deviation can be placed).
fn explore(c: &mut Cell, prefix: Vec<Ans>, used: u32, target: u32, rep: &mut Report, sampled: &mut u32, dead: &mut std::collections::HashSet<Vec<Ans>>) {
    if dead.contains(&prefix) {
        return;
    }
    let mut scratch = rep.child();
    let record = used == target;
    let (calls, v) = run_script(c, &prefix, if record { rep } else { &mut scratch });
    if record {
        rep.inc("schedules");
        if used > 0 {
            rep.inc("distinct_nontrivial");
        }
        rep.max("max_path_len", calls as u64);
        if let Some((key, exp, obs)) = v {
            rep.violation(&key, format!("update_reader over {} bytes (+{} prefix) with answers {:?}: expected {}, observed {}", c.data.len() - c.prefix, c.prefix, prefix, exp, obs),
                rj(c, &prefix, &key, exp, obs));
            dead.insert(prefix); // do not extend a violating execution
            return;
        }
        if used == 2 && *sampled < 2 && prefix.len() > 2 {
            *sampled += 1;
            rep.sample(json!({"mode": c.mode.json(), "stream_len": c.data.len() - c.prefix, "prefix": c.prefix,
                "answers": prefix.iter().map(|a| a.json()).collect::<Vec<_>>()}));
        }
        return;
    }
    // deviate at every later call position (positions inside the prefix were fixed by the caller)
    for i in prefix.len()..calls {
        for alt in MENU.iter().skip(1) {
            let mut p = prefix.clone();
            while p.len() < i {
                p.push(Ans::Full);
            }
            p.push(*alt);
            explore(c, p, used + 1, target, rep, sampled, dead);
        }
    }
}

fn reader_cells(args: &Args) -> Vec<(ModeSpec, usize, usize, u32)> {
    let t = args.thorough();
    let mut v = vec![];
    for m in [ModeSpec::Hash, ModeSpec::Keyed(*vcommon::TEST_KEY)] {
        for len in [0usize, 1, 65535, 65536, 65537, 200_000] {
            for prefix in [0usize, 100] {
                let bound = if t { if len <= 65537 { 5 } else { 4 } } else { if len <= 65537 { 4 } else { 3 } };
                v.push((m.clone(), len, prefix, bound));
            }
        }
    }
    v
}

// ---------------------------------------------------------------------------------------------
// files

#[cfg(feature = "mmap")]
fn file_methods(mode: &ModeSpec, path: &std::path::Path, prefix: &[u8]) -> Vec<(&'static str, Result<io::Result<(u64, [u8; 32])>, String>)> {
    let mut out = vec![];
    let fin = |h: &blake3::Hasher| (h.count(), *h.finalize().as_bytes());
    out.push(("update_reader(File)", vcommon::catch(|| {
        let mut h = mode.hasher();
        h.update(prefix);
        let f = std::fs::File::open(path)?;
        h.update_reader(f)?;
        Ok(fin(&h))
    })));
    out.push(("update_mmap", vcommon::catch(|| {
        let mut h = mode.hasher();
        h.update(prefix);
        h.update_mmap(path)?;
        Ok(fin(&h))
    })));
    #[cfg(feature = "rayon")]
    out.push(("update_mmap_rayon", vcommon::catch(|| {
        let mut h = mode.hasher();
        h.update(prefix);
        h.update_mmap_rayon(path)?;
        Ok(fin(&h))
    })));
    out
}

#[cfg(feature = "mmap")]
fn check_file(mode: &ModeSpec, path: &std::path::Path, content: Option<&[u8]>, expect_err: bool, what: &str, rep: &mut Report) {
    check_file_after(mode, path, content, expect_err, what, 0, rep);
}

/// The file methods on a hasher that has already absorbed `prefix_len` bytes (0 = a new hasher).
#[cfg(feature = "mmap")]
fn check_file_after(mode: &ModeSpec, path: &std::path::Path, content: Option<&[u8]>, expect_err: bool, what: &str, prefix_len: usize, rep: &mut Report) {
    let prefix = vcommon::stream_b(7, prefix_len);
    let results = file_methods(mode, path, &prefix);
    let expected = content.map(|c| {
        let mut all = prefix.clone();
        all.extend_from_slice(c);
        (all.len() as u64, b3spec::hash32(&mode.spec(), &all))
    });
    let what = &if prefix_len == 0 { what.to_string() } else { format!("{} (hasher already holding {} bytes)", what, prefix_len) };
    for (name, r) in results {
        rep.inc("evaluations");
        rep.inc("file_method_calls");
        let case = json!({"property": "C11", "engine": "core/adapters", "subject": name, "mode": mode.json(), "file": what,
                          "path": path.to_string_lossy(), "mmap_forced_to_fail": std::env::var("VERIF_MMAP_FAIL").ok()});
        let fail = |rep: &mut Report, key: &str, exp: String, obs: String| {
            let mut c = case.clone();
            c["check"] = json!(key);
            c["expected"] = json!(exp);
            c["observed"] = json!(obs);
            rep.violation(key, format!("{} on {}: expected {}, observed {}", name, what, c["expected"], c["observed"]), c);
        };
        match r {
            Err(m) => fail(rep, &format!("{}:panic", name), "no panic".into(), m),
            Ok(Err(e)) => {
                if !expect_err {
                    fail(rep, &format!("{}:unexpected-error", name), "Ok".into(), format!("Err({})", e));
                }
            }
            Ok(Ok((cnt, hash))) => {
                if expect_err {
                    fail(rep, &format!("{}:missing-error", name), "Err".into(), "Ok".into());
                } else if let Some((elen, ehash)) = expected {
                    rep.inc("spec_comparisons");
                    if cnt != elen || hash != ehash {
                        fail(rep, &format!("{}:wrong-result", name), format!("count {} hash {}", elen, vcommon::hex(&ehash)), format!("count {} hash {}", cnt, vcommon::hex(&hash)));
                    }
                }
            }
        }
    }
}

#[cfg(feature = "mmap")]
pub fn files(args: &Args, rep: &mut Report, child: bool) {
    let t = args.thorough();
    let dir = std::path::PathBuf::from(format!("/verif/out/c11-files-{}-{}", std::process::id(), if child { "child" } else { "main" }));
    let _ = std::fs::remove_dir_all(&dir);
    std::fs::create_dir_all(&dir).expect("scratch dir under /verif/out");
    let big = vcommon::stream_a((1 << 20) + 70);
    let mut lens: Vec<usize> = (0..=300).collect();
    lens.extend(16384 - 70..=16384 + 70);
    lens.extend([65535, 65536, 65537, (1 << 20) + 1]);
    if t {
        lens.extend(16384 - 400..16384 - 70);
        lens.extend(16384 + 71..16384 + 400);
        lens.extend(65536 - 70..65536 + 70);
        lens.extend(2 * 16384 - 3..2 * 16384 + 3);
    }
    if child {
        // with mmap failing only files at or above the threshold take a different path
        lens.retain(|l| *l >= 16384 - 2 || *l % 50 == 0);
    }
    lens.sort();
    lens.dedup();
    let modes = [ModeSpec::Hash, ModeSpec::Keyed(*vcommon::TEST_KEY), ModeSpec::Derive(vcommon::TEST_CONTEXT.to_string())];
    let path = dir.join("f.bin");
    let mut seen = 0u64;
    for (i, &len) in lens.iter().enumerate() {
        std::fs::write(&path, &big[..len]).expect("write scratch file");
        let mode = &modes[i % modes.len()];
        check_file(mode, &path, Some(&big[..len]), false, &format!("regular file of {} bytes", len), rep);
        seen += 1;
        if len == 16384 || len == 16383 || len == 16385 {
            for m in &modes {
                check_file(m, &path, Some(&big[..len]), false, &format!("regular file of {} bytes", len), rep);
            }
        }
        // the same on hashers that are not new: a byte in the chunk buffer, exactly one buffered chunk,
        // a subtree on the stack plus a partial chunk
        if len <= 2 || (16382..=16386).contains(&len) || len % 64 == 17 || len >= 65535 {
            for pl in [1usize, 1024, 2048 + 7] {
                check_file_after(mode, &path, Some(&big[..len]), false, &format!("regular file of {} bytes", len), pl, rep);
            }
        }
    }
    rep.add("distinct_nontrivial", seen);
    rep.sample(json!({"file": "regular file", "lengths": "0..=300, 16384+-70, 65535..65537, 1 MiB+1", "methods": ["update_reader(File)", "update_mmap", "update_mmap_rayon"],
                      "mmap_forced_to_fail": child}));
    // special files
    let m = &modes[0];
    let pv = std::path::Path::new("/proc/version");
    if let Ok(c) = std::fs::read(pv) {
        check_file(m, pv, Some(&c), false, "/proc/version (size 0, non-empty)", rep);
        rep.inc("distinct_nontrivial");
    }
    check_file(m, std::path::Path::new("/dev/null"), Some(b""), false, "/dev/null", rep);
    check_file(m, &dir, None, true, "a directory", rep);
    check_file(m, &dir.join("missing"), None, true, "a missing path", rep);
    rep.add("distinct_nontrivial", 3);
    let btf = std::path::Path::new("/sys/kernel/btf/vmlinux");
    if let Ok(c) = std::fs::read(btf) {
        if c.len() > 16384 {
            check_file(m, btf, Some(&c), false, "/sys/kernel/btf/vmlinux (large, unmappable)", rep);
            check_file_after(m, btf, Some(&c), false, "/sys/kernel/btf/vmlinux (large, unmappable)", 1025, rep);
            rep.inc("distinct_nontrivial");
            rep.inc("natural_unmappable_file");
        }
    }
    // a FIFO fed by another thread in uneven pieces
    let fifo = dir.join("fifo");
    let cpath = std::ffi::CString::new(fifo.to_str().unwrap()).unwrap();
    if unsafe { libc::mkfifo(cpath.as_ptr(), 0o600) } == 0 {
        for (mi, method) in ["reader", "mmap", "mmap_rayon"].iter().enumerate() {
            let payload = big[..70_000 + mi].to_vec();
            let fp = fifo.clone();
            let p2 = payload.clone();
            let feeder = std::thread::spawn(move || {
                use std::io::Write;
                if let Ok(mut f) = std::fs::OpenOptions::new().write(true).open(&fp) {
                    for piece in p2.chunks(4097) {
                        let _ = f.write_all(piece);
                    }
                }
            });
            let r = vcommon::catch(|| -> io::Result<(u64, [u8; 32])> {
                let mut h = m.hasher();
                match *method {
                    "reader" => {
                        h.update_reader(std::fs::File::open(&fifo)?)?;
                    }
                    "mmap" => {
                        h.update_mmap(&fifo)?;
                    }
                    _ => {
                        #[cfg(feature = "rayon")]
                        h.update_mmap_rayon(&fifo)?;
                        #[cfg(not(feature = "rayon"))]
                        h.update_mmap(&fifo)?;
                    }
                }
                Ok((h.count(), *h.finalize().as_bytes()))
            });
            let _ = feeder.join();
            rep.inc("evaluations");
            rep.inc("distinct_nontrivial");
            let exp = (payload.len() as u64, b3spec::hash32(&m.spec(), &payload));
            let ok = matches!(&r, Ok(Ok(x)) if *x == exp);
            if !ok {
                rep.violation("fifo:wrong-result", format!("{} on a FIFO of {} bytes: {:?}", method, payload.len(), r.map(|x| x.map(|y| y.0))),
                    json!({"property": "C11", "engine": "core/adapters", "subject": method, "file": "fifo", "check": "fifo:wrong-result"}));
            }
        }
    }
    let _ = std::fs::remove_dir_all(&dir);
}

#[cfg(not(feature = "mmap"))]
pub fn files(_args: &Args, rep: &mut Report, _child: bool) {
    rep.notes.push("built without the mmap feature: file methods not explored".into());
}

/// Single large buffers through every entry point (a cap on how much one call absorbs would only show
/// here): Write::write (must report and absorb the whole buffer), write_all, io::copy, update_reader.
fn large_buffers(rep: &mut Report, thorough: bool) {
    let mut sizes: Vec<(usize, usize)> = vec![((1 << 20), 16 * (1 << 20) + 1), ((1 << 22), 16 * (1 << 22) + 3149)];
    if thorough {
        sizes.push(((1 << 24), 16 * (1 << 24) + 65));
    }
    let max = sizes.iter().map(|s| s.1).max().unwrap();
    let data = vcommon::stream_b(11, max);
    let m = ModeSpec::Keyed(*vcommon::TEST_KEY);
    for (sub, n) in sizes {
        let exp = b3spec::node_parallel16(&m.spec(), &data[..n], sub).root_bytes(0, 32);
        let runs: Vec<(&str, Box<dyn Fn() -> io::Result<(u64, u64, [u8; 32])> + '_>)> = vec![
            ("Write::write", Box::new(|| {
                let mut h = m.hasher();
                let r = io::Write::write(&mut h, &data[..n])? as u64;
                Ok((r, h.count(), *h.finalize().as_bytes()))
            })),
            ("Write::write_all", Box::new(|| {
                let mut h = m.hasher();
                io::Write::write_all(&mut h, &data[..n])?;
                Ok((n as u64, h.count(), *h.finalize().as_bytes()))
            })),
            ("io::copy", Box::new(|| {
                let mut h = m.hasher();
                let r = io::copy(&mut io::Cursor::new(&data[..n]), &mut h)?;
                Ok((r, h.count(), *h.finalize().as_bytes()))
            })),
            ("update_reader", Box::new(|| {
                let mut h = m.hasher();
                h.update_reader(io::Cursor::new(&data[..n]))?;
                Ok((n as u64, h.count(), *h.finalize().as_bytes()))
            })),
        ];
        for (name, f) in runs {
            rep.inc("evaluations");
            rep.inc("distinct_nontrivial");
            rep.inc("spec_comparisons");
            rep.inc("large_buffer_calls");
            let r = vcommon::catch(|| f());
            match r {
                Ok(Ok((ret, cnt, h))) if ret == n as u64 && cnt == n as u64 && h[..] == exp[..] => {}
                other => rep.violation("large-buffer:wrong-result", format!("{} with one buffer of {} bytes: returned / absorbed / digest wrong: {:?}", name, n, other.map(|x| x.map(|y| (y.0, y.1)).map_err(|e| e.to_string()))),
                    json!({"property": "C11", "engine": "core/adapters", "subject": name, "large_buffer": n, "check": "large-buffer:wrong-result"})),
            }
        }
    }
}

fn io_copy_checks(rep: &mut Report) {
    // std::io::copy into the Write impl, and write_all, consume every buffer completely
    let data = vcommon::stream_a(300_000);
    for len in [0usize, 1, 8191, 8192, 8193, 65536, 65537, 300_000] {
        for m in [ModeSpec::Hash, ModeSpec::Keyed(*vcommon::TEST_KEY)] {
            rep.inc("evaluations");
            rep.inc("distinct_nontrivial");
            let r = vcommon::catch(|| {
                let mut h = m.hasher();
                let n = io::copy(&mut io::Cursor::new(&data[..len]), &mut h)?;
                Ok::<_, io::Error>((n, h.count(), *h.finalize().as_bytes()))
            });
            let exp = b3spec::hash32(&m.spec(), &data[..len]);
            match r {
                Ok(Ok((n, c, h))) if n == len as u64 && c == len as u64 && h == exp => {}
                other => rep.violation("io::copy:wrong-result", format!("io::copy of {} bytes into a {} hasher: {:?}", len, m.name(), other.map(|x| x.map(|y| (y.0, y.1)))),
                    json!({"property": "C11", "engine": "core/adapters", "subject": "io::copy", "len": len, "check": "io::copy:wrong-result"})),
            }
        }
    }
}

pub fn run(args: &Args, rep: &mut Report) {
    if args.extra.get("child").map(|s| s.as_str()) == Some("mmapfail") {
        // re-executed under the LD_PRELOAD interposer with VERIF_MMAP_FAIL=1
        files(args, rep, true);
        return;
    }
    let cells = reader_cells(args);
    let r = vcommon::par_run(args.jobs, cells, rep, |(mode, len, prefix, bound), local| {
        let data = vcommon::stream_a(len + prefix);
        let mut c = Cell { mode, data: &data, prefix: *prefix, oracle: b3spec::StreamOracle::new(mode.spec(), data.clone()) };
        let mut sampled = 0;
        let mut dead = std::collections::HashSet::new();
        for target in 0..=*bound {
            explore(&mut c, vec![], 0, target, local, &mut sampled, &mut dead);
        }
        local.max("max_deviation_bound_completed", *bound as u64);
    });
    rep.merge(r);
    io_copy_checks(rep);
    large_buffers(rep, args.thorough());
    files(args, rep, false);
    // the same file sweep with mmap forced to fail (drives the rewind-and-read fallback)
    #[cfg(feature = "mmap")]
    {
        match std::env::var("VERIF_MMAPFAIL_SO") {
            Ok(so) if std::path::Path::new(&so).exists() => {
                let rpt = format!("{}.mmapfail-child.json", args.report);
                let st = std::process::Command::new(std::env::current_exe().unwrap())
                    .args(["--prop", "C11", "--tier", &args.tier, "--seed", &args.seed.to_string(), "--report", &rpt, "--child", "mmapfail"])
                    .env("LD_PRELOAD", &so)
                    .env("VERIF_MMAP_FAIL", "1")
                    .status();
                match st {
                    Ok(s) if s.success() => {
                        let text = std::fs::read_to_string(&rpt).expect("child report");
                        let v: Value = vcommon::serde_json::from_str(&text).expect("child report json");
                        for (k, n) in v["counters"].as_object().unwrap() {
                            let key = if k == "evaluations" || k == "distinct_nontrivial" || k == "spec_comparisons" { k.clone() } else { format!("mmapfail_{}", k) };
                            rep.add(&key, n.as_u64().unwrap_or(0));
                        }
                        for s in v["samples"].as_array().unwrap() {
                            rep.sample(s.clone());
                        }
                        for x in v["violations"].as_array().unwrap() {
                            rep.violation(&format!("mmap-failing:{}", x["key"].as_str().unwrap()), x["summary"].as_str().unwrap().to_string(), x["replay"].clone());
                        }
                        rep.inc("mmapfail_child_runs");
                    }
                    other => {
                        eprintln!("mmap-fail child did not complete: {:?}", other);
                        std::process::exit(2);
                    }
                }
            }
            _ => {
                rep.cap("mmap-failure injection unavailable (VERIF_MMAPFAIL_SO not set)");
            }
        }
    }
    rep.configs.push(subject::config_json());
    rep.rule = "update_reader over a scripted Read: every answer sequence over {full, short 1/63/1024/65535, Interrupted, hard error of 7 kinds (Other, UnexpectedEof, WouldBlock, TimedOut, BrokenPipe, InvalidData, PermissionDenied), early Ok(0)} with a bounded number of deviations from 'fill the buffer', on streams of 0, 1, 65535, 65536, 65537 and 200000 bytes, from empty and non-empty hashers, oracle = update() with exactly the yielded pieces + spec hash of the yielded bytes + error/EOF protocol; update_reader(File)/update_mmap/update_mmap_rayon on regular files of every length 0..=300, 16384+-70 and around 64 KiB / 1 MiB and on special files, once normally and once with file-backed mmap forced to fail; non-trivial = executions with >= 1 deviation, or distinct files".into();
    rep.extra.insert("bounds".into(), json!({"deviation_bound": if args.thorough() { "5 (4 for the 200000-byte stream)" } else { "4 (3 for the 200000-byte stream)" }, "menu": MENU.iter().map(|a| a.json()).collect::<Vec<_>>()}));
    rep.assumptions.push("reader content is stream A".into());
    rep.assumptions.push("mmap failure is injected by an LD_PRELOAD interposer on mmap/mmap64 for file-backed mappings".into());
}

pub fn replay(v: &Value) -> bool {
    if v["large_buffer"].is_u64() {
        let mut rep = Report::new(&Args { prop: "C11".into(), tier: "quick".into(), seed: 1, report: String::new(), replay: None, jobs: 1, extra: Default::default() }, "replay", "fault_enumeration");
        large_buffers(&mut rep, false);
        for x in rep.violations.iter().take(3) {
            println!("violation {}: {}", x.key, x.summary);
        }
        return !rep.violations.is_empty();
    }
    if v["script"].is_array() {
        let mode = ModeSpec::from_json(&v["mode"]);
        let len = v["stream_len"].as_u64().unwrap_or(0) as usize;
        let prefix = v["prefix"].as_u64().unwrap_or(0) as usize;
        let script: Vec<Ans> = v["script"].as_array().unwrap().iter().map(Ans::from_json).collect();
        let data = vcommon::stream_a(len + prefix);
        let mut c = Cell { mode: &mode, data: &data, prefix, oracle: b3spec::StreamOracle::new(mode.spec(), data.clone()) };
        let mut rep = Report::new(&Args { prop: "C11".into(), tier: "quick".into(), seed: 1, report: String::new(), replay: None, jobs: 1, extra: Default::default() }, "replay", "fault_enumeration");
        let (_, r) = run_script(&mut c, &script, &mut rep);
        match r {
            Some((k, e, o)) => {
                println!("violation {}: expected {}, observed {}", k, e, o);
                true
            }
            None => {
                println!("no violation with this script");
                false
            }
        }
    } else {
        // file cases: re-run the file sweep (normal; the forced-failure sweep needs the interposer, which the
        // runner provides through VERIF_MMAPFAIL_SO) and see whether the same key recurs
        let args = Args { prop: "C11".into(), tier: "quick".into(), seed: 1, report: "/verif/out/c11-replay.json".into(), replay: None, jobs: 1, extra: Default::default() };
        let mut rep = Report::new(&args, "replay", "fault_enumeration");
        let want = v["check"].as_str().unwrap_or("").to_string();
        if v["mmap_forced_to_fail"].as_str() == Some("1") {
            if let Ok(so) = std::env::var("VERIF_MMAPFAIL_SO") {
                if std::env::var("VERIF_MMAP_FAIL").is_err() {
                    let st = std::process::Command::new(std::env::current_exe().unwrap())
                        .args(std::env::args().skip(1))
                        .env("LD_PRELOAD", &so)
                        .env("VERIF_MMAP_FAIL", "1")
                        .status()
                        .expect("re-exec");
                    return st.code() == Some(1);
                }
            }
            files(&args, &mut rep, true);
        } else {
            files(&args, &mut rep, false);
        }
        for x in rep.violations.iter().take(3) {
            println!("violation {}: {}", x.key, x.summary);
        }
        rep.violations.iter().any(|x| x.key == want)
    }
}
