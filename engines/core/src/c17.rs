//! C17: Debug output and zeroize() as non-interference: two runs with the same *shape* but
//! different secrets (key / context / input bytes) must be indistinguishable in Debug output, and,
//! after zeroize(), in the raw memory of the objects.
#![allow(deprecated)]
use crate::subject::{self, ModeSpec, P};
use vcommon::serde_json::{json, Value};
use vcommon::{Args, Report};

fn bad(rep: &mut Report, key: &str, what: String, case: Value) {
    let mut c = json!({"property": "C17", "engine": "core/secrecy", "check": key});
    c["case"] = case;
    rep.violation(key, what, c);
}

fn secrets() -> [(ModeSpec, &'static str); 6] {
    let mut k2 = *vcommon::TEST_KEY;
    for b in k2.iter_mut() {
        *b = b.wrapping_mul(31).wrapping_add(0x5b) ^ 0xa7;
    }
    [
        (ModeSpec::Hash, "A"),
        (ModeSpec::Hash, "C"),
        (ModeSpec::Keyed(*vcommon::TEST_KEY), "A"),
        (ModeSpec::Keyed(k2), "C"),
        (ModeSpec::Derive(vcommon::TEST_CONTEXT.to_string()), "A"),
        (ModeSpec::Derive("a completely different context string, 2026".to_string()), "C"),
    ]
}

/// Debug of OutputReader and guts::ChunkState over shape-equal, secret-different pairs.
fn debug_reader_and_guts(lname: &str, level: P, rep: &mut Report) {
    subject::force(Some(level));
    let sec = secrets();
    let seed = subject::seed();
    for pair in 0..3 {
        let (ma, sa) = &sec[2 * pair];
        let (mb, sb) = &sec[2 * pair + 1];
        for len in [0usize, 1, 64, 1025, 5000] {
            let da = vcommon::stream(sa, seed, len);
            let db = vcommon::stream(sb, seed, len);
            let mut ra = {
                let mut h = ma.hasher();
                h.update(&da);
                h.finalize_xof()
            };
            let mut rb = {
                let mut h = mb.hasher();
                h.update(&db);
                h.finalize_xof()
            };
            // the C03 depth-2 shape: a position, then a read
            for p in crate::xbfs::positions() {
                for n in [0usize, 1, 63, 64, 65, 1087] {
                    if (p as u128) + (n as u128) > u64::MAX as u128 {
                        continue;
                    }
                    rep.inc("evaluations");
                    rep.inc("states");
                    rep.inc("transitions");
                    rep.inc("distinct_nontrivial");
                    ra.set_position(p);
                    rb.set_position(p);
                    let mut ba = vec![0u8; n];
                    let mut bb = vec![0u8; n];
                    ra.fill(&mut ba);
                    rb.fill(&mut bb);
                    for pretty in [false, true] {
                        let (x, y) = if pretty { (format!("{:#?}", ra), format!("{:#?}", rb)) } else { (format!("{:?}", ra), format!("{:?}", rb)) };
                        if x != y {
                            bad(rep, "Debug(OutputReader):depends-on-secret", format!("{} vs {}", x, y), json!({"kind": "reader-debug", "level": lname, "pair": pair, "len": len, "pos": p.to_string(), "read": n}));
                        }
                        let s = ra.verif_state();
                        for w in s.input_chaining_value.iter().chain(crate::subject::words_of(&s.block).iter()) {
                            if *w >= 100_000 && (x.contains(&format!("{}", w)) || x.contains(&format!("{:x}", w))) {
                                bad(rep, "Debug(OutputReader):contains-secret-word", x.clone(), json!({"kind": "reader-debug-word", "level": lname, "pair": pair, "len": len}));
                            }
                        }
                    }
                }
            }
        }
    }
    // guts::ChunkState (hash mode only): different contents, same shape
    let da = vcommon::stream("A", seed, 1024);
    let db = vcommon::stream("C", seed, 1024);
    for ctr in [0u64, 7, 1u64 << 32, u64::MAX] {
        for len in 0..=1024usize {
            rep.inc("evaluations");
            rep.inc("states");
            rep.inc("transitions");
            rep.inc("distinct_nontrivial");
            let mut ca = blake3::guts::ChunkState::new(ctr);
            let mut cb = blake3::guts::ChunkState::new(ctr);
            ca.update(&da[..len]);
            cb.update(&db[..len]);
            for pretty in [false, true] {
                let (x, y) = if pretty { (format!("{:#?}", ca), format!("{:#?}", cb)) } else { (format!("{:?}", ca), format!("{:?}", cb)) };
                if x != y {
                    bad(rep, "Debug(guts::ChunkState):depends-on-secret", format!("{} vs {}", x, y), json!({"kind": "guts-debug", "level": lname, "counter": ctr.to_string(), "len": len}));
                }
            }
        }
    }
    subject::force(None);
}

#[cfg(feature = "zeroize")]
fn raw<T>(x: &T) -> Vec<u8> {
    let n = std::mem::size_of::<T>();
    let p = x as *const T as *const u8;
    (0..n).map(|i| unsafe { std::ptr::read_volatile(p.add(i)) }).collect()
}

/// Build the same shape twice with each secret; zeroize; compare raw memory.
#[cfg(feature = "zeroize")]
fn zeroize_checks(lname: &str, level: P, t: bool, rep: &mut Report) {
    use zeroize::Zeroize;
    subject::force(Some(level));
    let sec = secrets();
    let seed = subject::seed();
    // shapes: sequences of update sizes reaching interesting states (partial block, full buffer,
    // deep stack, popped stack slots), then zeroize
    let mut shapes: Vec<Vec<usize>> = vec![vec![], vec![1], vec![64], vec![65], vec![1023], vec![1024], vec![1025], vec![1024, 1024], vec![2048, 1],
        vec![7 * 1024], vec![7 * 1024, 1024], vec![7 * 1024, 1025], vec![31 * 1024 + 5], vec![31 * 1024, 1024, 1], vec![100 * 1024 + 17], vec![63, 1, 960, 1, 1024, 3000]];
    if t {
        for k in 1..=40usize {
            shapes.push(vec![k * 1024 + 33]);
            shapes.push(vec![k * 1024, 1024]);
        }
    }
    let mut unstable_total = 0u64;
    for pair in 0..3 {
        let (ma, sa) = &sec[2 * pair];
        let (mb, sb) = &sec[2 * pair + 1];
        for shape in &shapes {
            let total: usize = shape.iter().sum();
            let build = |m: &ModeSpec, s: &str| {
                let d = vcommon::stream(s, seed, total);
                let mut h = Box::new(m.hasher());
                let mut at = 0;
                for &k in shape {
                    h.update(&d[at..at + k]);
                    at += k;
                }
                h
            };
            rep.inc("evaluations");
            rep.inc("states");
            rep.inc("transitions");
            rep.inc("distinct_nontrivial");
            // Hasher
            let mut objs: Vec<Box<blake3::Hasher>> = vec![build(ma, sa), build(ma, sa), build(mb, sb), build(mb, sb)];
            let hashes: Vec<blake3::Hash> = objs.iter().map(|h| h.finalize()).collect();
            let mut readers: Vec<Box<blake3::OutputReader>> = objs.iter().map(|h| {
                let mut r = Box::new(h.finalize_xof());
                let mut b = [0u8; 100];
                r.fill(&mut b);
                r
            }).collect();
            for o in objs.iter_mut() {
                o.zeroize();
            }
            let mem: Vec<Vec<u8>> = objs.iter().map(|o| raw(&**o)).collect();
            let unstable: Vec<usize> = (0..mem[0].len()).filter(|&i| mem[0][i] != mem[1][i] || mem[2][i] != mem[3][i]).collect();
            unstable_total += unstable.len() as u64;
            let diff: Vec<usize> = (0..mem[0].len()).filter(|&i| mem[0][i] != mem[2][i] && !unstable.contains(&i)).collect();
            if !diff.is_empty() {
                bad(rep, "Zeroize(Hasher):secret-dependent-bytes-remain", format!("{} byte(s) of the zeroized Hasher differ between two secrets (first offsets {:?}) for shape {:?} at {}", diff.len(), &diff[..diff.len().min(8)], shape, lname),
                    json!({"kind": "zeroize-hasher", "level": lname, "pair": pair, "shape": shape}));
            }
            // OutputReader
            for r in readers.iter_mut() {
                r.zeroize();
            }
            let rm: Vec<Vec<u8>> = readers.iter().map(|r| raw(&**r)).collect();
            let unst: Vec<usize> = (0..rm[0].len()).filter(|&i| rm[0][i] != rm[1][i] || rm[2][i] != rm[3][i]).collect();
            unstable_total += unst.len() as u64;
            let diff: Vec<usize> = (0..rm[0].len()).filter(|&i| rm[0][i] != rm[2][i] && !unst.contains(&i)).collect();
            if !diff.is_empty() {
                bad(rep, "Zeroize(OutputReader):secret-dependent-bytes-remain", format!("{} byte(s) differ (first offsets {:?}) for shape {:?} at {}", diff.len(), &diff[..diff.len().min(8)], shape, lname),
                    json!({"kind": "zeroize-reader", "level": lname, "pair": pair, "shape": shape}));
            }
            // Hash: no padding, every byte must be zero
            for mut h in hashes {
                h.zeroize();
                if raw(&h).iter().any(|b| *b != 0) {
                    bad(rep, "Zeroize(Hash):bytes-remain", format!("zeroized Hash is {}", h.to_hex()), json!({"kind": "zeroize-hash", "level": lname, "pair": pair, "shape": shape}));
                }
            }
        }
    }
    rep.add("zeroize_unstable_offsets_excluded", unstable_total);
    subject::force(None);
}

pub fn run_extra(args: &Args, rep: &mut Report) {
    let levels = subject::levels();
    let t = args.thorough();
    let r = vcommon::par_run(args.jobs, levels, rep, |(lname, level), local| {
        debug_reader_and_guts(lname, *level, local);
        #[cfg(feature = "zeroize")]
        zeroize_checks(lname, *level, t, local);
        let _ = t;
    });
    rep.merge(r);
    #[cfg(not(feature = "zeroize"))]
    rep.notes.push("built without zeroize: zeroize not explored in this build".into());
    rep.sample(json!({"kind": "zeroize-hasher", "pair": "keyed(test key)+stream A vs keyed(other key)+stream C", "shape": [7168, 1025]}));
    rep.sample(json!({"kind": "reader-debug", "pos": (64u64 << 32).to_string(), "read": 65}));
    rep.assumptions.push("non-interference is tested between two fixed secret assignments per mode (different key / context / input stream, same shape)".into());
    rep.assumptions.push("raw object memory is read through a byte pointer; offsets that differ between two objects built identically (unstable padding) are excluded and counted".into());
}

pub fn replay_extra(v: &Value) -> bool {
    let case = &v["case"];
    let level = case["level"].as_str().unwrap_or("portable");
    let lv = subject::levels().into_iter().find(|l| l.0 == level).expect("level not available");
    let args = Args { prop: "C17".into(), tier: "quick".into(), seed: subject::seed(), report: String::new(), replay: None, jobs: 1, extra: Default::default() };
    let mut rep = Report::new(&args, "replay", "model_checking");
    debug_reader_and_guts(level, lv.1, &mut rep);
    #[cfg(feature = "zeroize")]
    zeroize_checks(level, lv.1, false, &mut rep);
    for x in rep.violations.iter().take(3) {
        println!("violation {}: {}", x.key, x.summary);
    }
    rep.violations.iter().any(|x| Some(x.key.as_str()) == v["check"].as_str())
}
