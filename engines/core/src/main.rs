//! vcore — the engine for the properties decided on the Rust crate through its public API plus
//! the cfg(blake3_team_blake3_verif) hooks. One sub-engine per property; see /verif/DESIGN.md.
mod c01;
mod subject;

use vcommon::{Args, Report};

fn main() {
    let args = Args::parse();
    subject::install_hooks();
    subject::set_seed(args.seed);
    vcommon::silence_panics();
    if let Err(e) = b3spec::self_check() {
        eprintln!("ORACLE-ANCHOR-FAILED: {}", e);
        std::process::exit(2);
    }
    if let Some(path) = &args.replay {
        let text = std::fs::read_to_string(path).expect("replay file");
        let v: vcommon::serde_json::Value = vcommon::serde_json::from_str(&text).expect("replay json");
        let reproduced = match args.prop.as_str() {
            "C01" => c01::replay(&v),
            _ => {
                eprintln!("no replay for {}", args.prop);
                std::process::exit(2);
            }
        };
        println!("{}", if reproduced { "REPRODUCED" } else { "NOT-REPRODUCED" });
        std::process::exit(if reproduced { 1 } else { 0 });
    }
    let (engine, level) = match args.prop.as_str() {
        "C01" => ("core/oneshot", "exploration"),
        _ => {
            eprintln!("vcore does not serve {}", args.prop);
            std::process::exit(2);
        }
    };
    let mut rep = Report::new(&args, engine, level);
    match args.prop.as_str() {
        "C01" => c01::run(&args, &mut rep),
        _ => unreachable!(),
    }
    rep.write(&args.report);
}
