//! vcore — the engine for the properties decided on the Rust crate through its public API plus
//! the cfg(blake3_team_blake3_verif) hooks. One sub-engine per property; see /verif/DESIGN.md.
mod c01;
#[cfg(feature = "std")]
mod c07api;
mod c09;
#[cfg(feature = "std")]
mod c11;
mod c14;
mod c15;
mod c16;
mod c17;
mod hbfs;
mod lanes;
mod subject;
mod xbfs;

use vcommon::{Args, Report};

fn main() {
    let args = Args::parse();
    subject::install_hooks();
    subject::set_seed(args.seed);
    if args.extra.get("exact-rayon").map(|s| s.as_str()) == Some("1") {
        lanes::EXACT_RAYON.store(true, std::sync::atomic::Ordering::SeqCst);
    }
    vcommon::silence_panics();
    if let Err(e) = b3spec::self_check() {
        eprintln!("ORACLE-ANCHOR-FAILED: {}", e);
        std::process::exit(2);
    }
    #[cfg(feature = "std")]
    lanes::watchdog::init(&args);
    if let Some(path) = &args.replay {
        let text = std::fs::read_to_string(path).expect("replay file");
        let v: vcommon::serde_json::Value = vcommon::serde_json::from_str(&text).expect("replay json");
        if v["watchdog"].is_string() {
            // a call that never returned: run the exploration again; if it gets stuck again the
            // watchdog answers REPRODUCED and exits, otherwise it was not reproducible
            let mut a = args.clone();
            a.report = "/verif/out/core-watchdog-replay.json".into();
            let mut rep = Report::new(&a, "replay", "model_checking");
            if args.prop == "C02" || args.prop == "C10" {
                let t = false;
                let cfgs = vec![hbfs::cfg_fine("C02", t), hbfs::cfg_coarse("C02", t)];
                hbfs::run(&a, &mut rep, cfgs, subject::primary_modes(), &["A"]);
            }
            println!("NOT-REPRODUCED");
            std::process::exit(0);
        }
        let reproduced = match args.prop.as_str() {
            "C01" => c01::replay(&v),
            "C02" | "C10" => hbfs::replay(&v),
            "C03" => xbfs::replay(&v),
            #[cfg(feature = "std")]
            "C07" => c07api::replay(&v),
            "C09" => c09::replay(&v),
            #[cfg(feature = "std")]
            "C11" => c11::replay(&v),
            "C14" => c14::replay(&v),
            "C15" => c15::replay(&v),
            "C16" => if v["engine"].as_str() == Some("core/guts") { c16::replay_guts(&v) } else { hbfs::replay(&v) },
            "C17" => if v["engine"].as_str() == Some("core/secrecy") { c17::replay_extra(&v) } else { hbfs::replay(&v) },
            _ => {
                eprintln!("no replay for {}", args.prop);
                std::process::exit(2);
            }
        };
        println!("{}", if reproduced { "REPRODUCED" } else { "NOT-REPRODUCED" });
        std::process::exit(if reproduced { 1 } else { 0 });
    }
    let (engine, level) = match args.prop.as_str() {
        "C01" => ("core/oneshot", "exploration"),
        "C02" | "C10" => ("core/hasher_bfs", "model_checking"),
        "C03" => ("core/xof_bfs", "model_checking"),
        "C07" => ("core/api_guard", "exploration"),
        "C09" => ("core/hazmat", "exploration"),
        "C11" => ("core/adapters", "fault_enumeration"),
        "C14" => ("core/hash_value", "exploration"),
        "C15" => ("core/refimpl", "exploration"),
        "C16" => ("core/traits_bfs+guts", "model_checking"),
        "C17" => ("core/secrecy", "model_checking"),
        _ => {
            eprintln!("vcore does not serve {}", args.prop);
            std::process::exit(2);
        }
    };
    let mut rep = Report::new(&args, engine, level);
    match args.prop.as_str() {
        "C01" => c01::run(&args, &mut rep),
        "C03" => xbfs::run(&args, &mut rep),
        #[cfg(feature = "std")]
        "C07" => c07api::run(&args, &mut rep),
        "C09" => c09::run(&args, &mut rep),
        #[cfg(feature = "std")]
        "C11" => c11::run(&args, &mut rep),
        "C14" => c14::run(&args, &mut rep),
        "C15" => c15::run(&args, &mut rep),
        "C16" => {
            if !cfg!(feature = "traits") {
                eprintln!("C16 needs the traits feature");
                std::process::exit(2);
            }
            let t = args.thorough();
            let mut fine = hbfs::cfg_fine("C16", t);
            fine.name = "fine+reset, second lane driven only through the RustCrypto traits".into();
            fine.with_reset = true;
            fine.traits_lane = true;
            fine.adapters = false;
            let mut coarse = hbfs::cfg_coarse("C16", false);
            coarse.name = "coarse+reset, traits lane".into();
            coarse.with_reset = true;
            coarse.traits_lane = true;
            coarse.adapters = false;
            coarse.max_dev = 1;
            coarse.max_total = 80 * 1024;
            hbfs::run(&args, &mut rep, vec![fine, coarse], subject::primary_modes(), &["A"]);
            c16::run_guts(&args, &mut rep);
            rep.rule = "two hashers advanced in lock-step from every state of the fine (+reset) exploration: one through inherent methods, one only through digest::{Update, Digest, Reset, KeyInit}; after every step identical complete state, and in every state FixedOutput/FixedOutputReset/ExtendableOutput(+Reset)/XofReader/Digest/Mac results equal the inherent ones and the resetting variants leave the state of a reset hasher; guts::ChunkState for every length 0..=1024 x splits x chunk counters (edge set) x is_root and guts::parent_cv on CV pairs, vs spec nodes; non-trivial = states reached by >= 2 updates, or distinct guts cases".into();
        }
        "C17" => {
            let t = args.thorough();
            let mut fine = hbfs::cfg_fine("C17", t);
            fine.name = "fine, second lane with different secrets".into();
            fine.secret_lane = true;
            fine.adapters = false;
            let mut coarse = hbfs::cfg_coarse("C17", false);
            coarse.name = "coarse, second lane with different secrets".into();
            coarse.secret_lane = true;
            coarse.adapters = false;
            coarse.max_dev = 1;
            coarse.max_total = 80 * 1024;
            hbfs::run(&args, &mut rep, vec![fine, coarse], subject::primary_modes(), &["A"]);
            c17::run_extra(&args, &mut rep);
            rep.rule = "non-interference: every state of the fine/coarse Hasher exploration is reached twice in lock-step with different key/context/input (same shape) and {:?}/{:#?} must be byte-identical and contain no secret word; the same for OutputReader over positions x reads and guts::ChunkState over every length; with zeroize, after zeroize() the raw memory of Hasher/OutputReader built with two different secrets must be identical (unstable padding excluded) and Hash all zero; non-trivial = distinct states / shapes".into();
        }
        "C02" => {
            let t = args.thorough();
            let cfgs = vec![hbfs::cfg_fine("C02", t), hbfs::cfg_coarse("C02", t)];
            let streams: &[&str] = if t { &["A", "B"] } else { &["A"] };
            hbfs::run(&args, &mut rep, cfgs, subject::primary_modes(), streams);
            // the 4 GiB lane: asked for by the C02 plan only (the C04 / C08 plans reuse this enumeration without it)
            if args.extra.contains_key("huge") {
                c01::huge_hasher(&mut rep, t);
                rep.notes.push("4 GiB lane: one keyed Hasher at the best SIMD level fed 2^32+3149 bytes as one update and in uneven pieces (thorough: two more splits and update_reader); count() after every piece, hash and extended output vs the spec".into());
            }
            rep.rule = "BFS over the real Hasher from the fresh state: update(next k bytes of the stream) for k in the fine alphabet (all paths, bounded total) and the coarse alphabet (chunk multiples, bounded deviations), merged on the complete state; in every state count/finalize/finalize_xof/finalize_non_root vs the spec, purity, clone independence, structural invariants; on every transition Write::write/update_reader(/update_rayon) == update; non-trivial = distinct states reached by >= 2 updates".into();
        }
        "C10" => {
            let t = args.thorough();
            let mut fine = hbfs::cfg_fine("C10", t);
            fine.name = "fine+reset+offsets".into();
            fine.with_reset = true;
            fine.offsets = vec![1024, 3 * 1024, 4096, 1u64 << 42, (1u64 << 42) + 2048];
            fine.adapters = false;
            let mut coarse = hbfs::cfg_coarse("C10", t);
            coarse.name = "coarse+reset+offsets".into();
            coarse.with_reset = true;
            coarse.offsets = vec![64 * 1024, 1u64 << 42];
            coarse.max_dev = 1;
            coarse.adapters = false;
            let mut modes = subject::primary_modes();
            modes.push(subject::ModeSpec::DeriveCk(vcommon::TEST_CONTEXT.to_string()));
            hbfs::run(&args, &mut rep, vec![fine, coarse], modes, &["A"]);
            rep.rule = "the C02 exploration extended with reset() from every reachable state and set_input_offset(o) at count()==0; every post-reset state must be byte-identical (all fields) to a newly constructed hasher of the same mode and is then explored again; clone independence checked on every state; non-trivial = distinct states reached by >= 2 updates".into();
        }
        _ => unreachable!(),
    }
    rep.write(&args.report);
}
