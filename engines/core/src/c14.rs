//! C14: Hash <-> hex / bytes / slices / serde conversions and equality, enumerated over the
//! decomposed domain (every byte value at every position, every length, every single-bit pair).
use std::str::FromStr;
use vcommon::serde_json::{json, Value};
use vcommon::{Args, Report};

fn backgrounds() -> [[u8; 32]; 3] {
    let mut b = [0u8; 32];
    for (i, x) in b.iter_mut().enumerate() {
        *x = (i as u8).wrapping_mul(37).wrapping_add(11);
    }
    [[0u8; 32], [0xffu8; 32], b]
}

fn hexval(c: u8) -> Option<u8> {
    match c {
        b'0'..=b'9' => Some(c - b'0'),
        b'a'..=b'f' => Some(c - b'a' + 10),
        b'A'..=b'F' => Some(c - b'A' + 10),
        _ => None,
    }
}

fn ref_hex(b: &[u8; 32]) -> String {
    const D: &[u8; 16] = b"0123456789abcdef";
    let mut s = String::new();
    for x in b {
        s.push(D[(x / 16) as usize] as char);
        s.push(D[(x % 16) as usize] as char);
    }
    s
}

fn v(rep: &mut Report, key: &str, what: String, case: Value) {
    let mut c = json!({"property": "C14", "engine": "core/hash_value", "check": key});
    c["case"] = case;
    rep.violation(key, what, c);
}

fn ev(rep: &mut Report) {
    rep.inc("evaluations");
    rep.inc("distinct_nontrivial");
}

pub fn run(_args: &Args, rep: &mut Report) {
    let bgs = backgrounds();
    // 1. to_hex / Display / Debug / from_hex / FromStr / conversions: every byte value at every position
    for (bi, bg) in bgs.iter().enumerate() {
        for pos in 0..32 {
            for val in 0..=255u8 {
                let mut bytes = *bg;
                bytes[pos] = val;
                ev(rep);
                let case = json!({"kind": "roundtrip", "background": bi, "pos": pos, "value": val});
                let r = vcommon::catch(|| {
                    let h = blake3::Hash::from_bytes(bytes);
                    let want = ref_hex(&bytes);
                    let hx = h.to_hex();
                    if hx.as_str() != want {
                        return Some(("Hash::to_hex:wrong", format!("{} != {}", hx.as_str(), want)));
                    }
                    if format!("{}", h) != want {
                        return Some(("Display:wrong", format!("{}", h)));
                    }
                    if format!("{:?}", h) != format!("Hash(\"{}\")", want) {
                        return Some(("Debug:wrong", format!("{:?}", h)));
                    }
                    let upper = want.to_uppercase();
                    for (form, s) in [("lower", &want), ("upper", &upper)] {
                        match blake3::Hash::from_hex(s.as_str()) {
                            Ok(back) if back.as_bytes() == &bytes => {}
                            other => return Some(("Hash::from_hex:roundtrip", format!("{} {:?}", form, other.map(|x| x.to_hex().to_string())))),
                        }
                        match blake3::Hash::from_hex(s.as_bytes()) {
                            Ok(back) if back.as_bytes() == &bytes => {}
                            _ => return Some(("Hash::from_hex(bytes):roundtrip", form.to_string())),
                        }
                        match blake3::Hash::from_hex(s.to_string()) {
                            Ok(back) if back.as_bytes() == &bytes => {}
                            _ => return Some(("Hash::from_hex(String):roundtrip", form.to_string())),
                        }
                        match blake3::Hash::from_str(s) {
                            Ok(back) if back.as_bytes() == &bytes => {}
                            _ => return Some(("FromStr:roundtrip", form.to_string())),
                        }
                        match s.parse::<blake3::Hash>() {
                            Ok(back) if back.as_bytes() == &bytes => {}
                            _ => return Some(("str::parse:roundtrip", form.to_string())),
                        }
                    }
                    // [u8; 32] and slice conversions
                    let a: [u8; 32] = h.into();
                    let h2: blake3::Hash = bytes.into();
                    if a != bytes || h2.as_bytes() != &bytes || h.as_slice() != &bytes[..] || blake3::Hash::from(bytes).as_bytes() != &bytes {
                        return Some(("Hash:array-conversion", "lossy".into()));
                    }
                    match blake3::Hash::from_slice(&bytes[..]) {
                        Ok(x) if x.as_bytes() == &bytes => {}
                        _ => return Some(("Hash::from_slice:roundtrip", "".into())),
                    }
                    // Copy/Clone/Hash-trait consistency
                    let c = h;
                    if c.as_bytes() != h.clone().as_bytes() {
                        return Some(("Hash:clone", "".into()));
                    }
                    None
                });
                match r {
                    Ok(None) => {}
                    Ok(Some((k, w))) => v(rep, k, w, case),
                    Err(m) => v(rep, "Hash:panic", m, case),
                }
            }
        }
    }
    // 2. from_hex accepts exactly hex digits: every byte value at every position of a valid string
    let valid = ref_hex(&bgs[2]);
    for pos in 0..64 {
        for val in 0..=255u8 {
            let mut s = valid.clone().into_bytes();
            s[pos] = val;
            ev(rep);
            let case = json!({"kind": "from_hex-byte", "pos": pos, "value": val});
            let expect = hexval(val).map(|d| {
                let mut b = bgs[2];
                if pos % 2 == 0 {
                    b[pos / 2] = (b[pos / 2] & 0x0f) | (d << 4);
                } else {
                    b[pos / 2] = (b[pos / 2] & 0xf0) | d;
                }
                b
            });
            let r = vcommon::catch(|| blake3::Hash::from_hex(&s[..]).map(|h| *h.as_bytes()).map_err(|e| e.to_string()));
            match (r, expect) {
                (Ok(Ok(got)), Some(want)) if got == want => {}
                (Ok(Err(_)), None) => {}
                (Ok(Ok(got)), Some(want)) => v(rep, "Hash::from_hex:wrong-value", format!("byte {:#x} at {}: {} != {}", val, pos, vcommon::hex(&got), vcommon::hex(&want)), case),
                (Ok(Ok(_)), None) => v(rep, "Hash::from_hex:accepts-non-hex", format!("byte {:#x} at position {} accepted", val, pos), case),
                (Ok(Err(e)), Some(_)) => v(rep, "Hash::from_hex:rejects-hex", format!("byte {:#x} at position {} rejected: {}", val, pos, e), case),
                (Err(m), _) => v(rep, "Hash::from_hex:panic", m, case),
            }
            // the &str path, when the mutated string is valid UTF-8
            if let Ok(st) = std::str::from_utf8(&s) {
                let r2 = vcommon::catch(|| blake3::Hash::from_str(st).is_ok());
                if r2 != Ok(expect.is_some()) {
                    v(rep, "FromStr:differs-from-from_hex", format!("{:?} at {} {:#x}", r2, pos, val), json!({"kind": "fromstr-byte", "pos": pos, "value": val}));
                }
            }
        }
    }
    // 3. every length 0..=130 (valid digits, then a few invalid fillers)
    for len in 0..=130usize {
        for filler in [b'a', b'0', b'F', b'g', b' ', 0xc3u8, 0u8] {
            ev(rep);
            let s = vec![filler; len];
            let want_ok = len == 64 && hexval(filler).is_some();
            let r = vcommon::catch(|| blake3::Hash::from_hex(&s[..]).is_ok());
            if r != Ok(want_ok) {
                v(rep, "Hash::from_hex:length", format!("len {} filler {:#x}: {:?}, expected ok={}", len, filler, r, want_ok), json!({"kind": "from_hex-len", "len": len, "filler": filler}));
            }
        }
    }
    // every length again through FromStr / str::parse, which must agree with from_hex
    for len in 0..=130usize {
        for filler in ['a', '0', 'F', 'g', ' '] {
            ev(rep);
            let s: String = std::iter::repeat(filler).take(len).collect();
            let want_ok = len == 64 && filler.is_ascii_hexdigit();
            let r = vcommon::catch(|| (blake3::Hash::from_str(&s).is_ok(), s.parse::<blake3::Hash>().is_ok()));
            if r != Ok((want_ok, want_ok)) {
                v(rep, "FromStr:length", format!("len {} filler {:?}: {:?}, expected ok={}", len, filler, r, want_ok), json!({"kind": "fromstr-len", "len": len, "filler": filler.to_string()}));
            }
        }
    }
    // a valid 64-digit string with something around it is not a 64-character hex string: every
    // decoration x {before, after, both}, through from_hex(&str), from_hex(&[u8]) and FromStr
    let decorations = [" ", "\n", "\r\n", "\t", "\u{b}", "\u{c}", "\0", "\u{a0}", "\u{3000}", "\u{feff}", "\u{2028}", "\u{85}", "0x", "0X", "+", "-", "\"", "'", ",", ";", ":", "=", "#", "h", "0", "00"];
    for d in decorations {
        for (where_, s) in [("before", format!("{}{}", d, valid)), ("after", format!("{}{}", valid, d)), ("both", format!("{}{}{}", d, valid, d))] {
            ev(rep);
            let r = vcommon::catch(|| (blake3::Hash::from_hex(s.as_str()).is_ok(), blake3::Hash::from_hex(s.as_bytes()).is_ok(), blake3::Hash::from_str(&s).is_ok(), s.parse::<blake3::Hash>().is_ok()));
            if r != Ok((false, false, false, false)) {
                v(rep, "from_hex/FromStr:accepts-decorated", format!("{:?} {} a valid string: (from_hex str, from_hex bytes, FromStr, parse) accepted = {:?}", d, where_, r), json!({"kind": "decorated", "decoration": d, "where": where_}));
            }
        }
    }
    // ... and one shorter string padded back to 64 characters
    for d in [" ", "\n", "\t", "\0"] {
        for (where_, s) in [("before", format!("{}{}", d, &valid[1..])), ("after", format!("{}{}", &valid[..63], d))] {
            ev(rep);
            let r = vcommon::catch(|| (blake3::Hash::from_hex(s.as_str()).is_ok(), blake3::Hash::from_str(&s).is_ok()));
            if r != Ok((false, false)) {
                v(rep, "from_hex/FromStr:accepts-padded", format!("63 digits with {:?} {}: {:?}", d, where_, r), json!({"kind": "padded", "decoration": d, "where": where_}));
            }
        }
    }
    // non-ASCII text whose *byte* length is 64
    for s in ["é".repeat(32), format!("{}é", "a".repeat(62)), format!("𝄞{}", "0".repeat(60))] {
        ev(rep);
        let r = vcommon::catch(|| blake3::Hash::from_hex(s.as_str()).is_ok());
        if r != Ok(false) {
            v(rep, "Hash::from_hex:non-ascii", format!("{:?} on {:?}", r, s), json!({"kind": "from_hex-nonascii", "s": s}));
        }
    }
    // 4. from_slice on every length 0..=70
    let long = [0x5au8; 80];
    for len in 0..=70usize {
        ev(rep);
        let r = vcommon::catch(|| blake3::Hash::from_slice(&long[..len]).map(|h| *h.as_bytes()).ok());
        let want = if len == 32 { Some([0x5au8; 32]) } else { None };
        if r != Ok(want) {
            v(rep, "Hash::from_slice:length", format!("len {}: {:?}", len, r.map(|x| x.is_some())), json!({"kind": "from_slice-len", "len": len}));
        }
    }
    // 5. equality: all 256 single-bit differences x three bases; Hash-Hash, Hash-[u8;32], Hash-[u8]
    for (bi, bg) in bgs.iter().enumerate() {
        let h = blake3::Hash::from_bytes(*bg);
        ev(rep);
        let same = blake3::Hash::from_bytes(*bg);
        let r = vcommon::catch(|| h == same && h == *bg && h == bg[..] && !(h != same));
        if r != Ok(true) {
            v(rep, "PartialEq:reflexive", format!("{:?}", r), json!({"kind": "eq-same", "background": bi}));
        }
        for bit in 0..256 {
            ev(rep);
            let mut o = *bg;
            o[bit / 8] ^= 1 << (bit % 8);
            let oh = blake3::Hash::from_bytes(o);
            let r = vcommon::catch(|| (h == oh, oh == h, h == o, h == o[..]));
            if r != Ok((false, false, false, false)) {
                v(rep, "PartialEq:single-bit-difference-equal", format!("bit {}: {:?}", bit, r), json!({"kind": "eq-bit", "background": bi, "bit": bit}));
            }
        }
        // differences in two and three bytes, chosen so that they cancel under the usual ways of
        // folding a difference (xor of words, sums of bytes or words, or of the wrong width): every pair
        // of positions x every pair of masks from a small set; every triple with masks (a, b, a^b);
        // +d at one position and -d at another
        let masks = [0x01u8, 0x80, 0xff, 0x5a];
        let mut differs = |rep: &mut Report, o: [u8; 32], what: String| {
            ev(rep);
            let oh = blake3::Hash::from_bytes(o);
            let r = vcommon::catch(|| (h == oh, oh == h, h == o, h == o[..], !(h != oh)));
            if r != Ok((false, false, false, false, false)) {
                v(rep, "PartialEq:different-bytes-equal", format!("{}: (h==o, o==h, h==[u8;32], h==[u8], !(h!=o)) = {:?}", what, r), json!({"kind": "eq-multi", "background": bi, "other": vcommon::hex(&o)}));
            }
        };
        for i in 0..32 {
            for j in (i + 1)..32 {
                for m1 in masks {
                    for m2 in masks {
                        let mut o = *bg;
                        o[i] ^= m1;
                        o[j] ^= m2;
                        differs(rep, o, format!("bytes {} and {} xor {:#x}, {:#x}", i, j, m1, m2));
                    }
                }
                for d in [1u8, 0x80] {
                    let mut o = *bg;
                    o[i] = o[i].wrapping_add(d);
                    o[j] = o[j].wrapping_sub(d);
                    differs(rep, o, format!("byte {} + {}, byte {} - {}", i, d, j, d));
                }
                for k in (j + 1)..32 {
                    for (a, b) in [(0x01u8, 0x01u8), (0x01, 0x02), (0xff, 0x0f)] {
                        let mut o = *bg;
                        o[i] ^= a;
                        o[j] ^= b;
                        o[k] ^= if a == b { a } else { a ^ b };
                        differs(rep, o, format!("bytes {}, {}, {} xor {:#x}, {:#x}, ..", i, j, k, a, b));
                    }
                }
            }
        }
        // whole-word differences: every pair of the 8-, 4- and 2-byte words swapped or both complemented
        for w in [2usize, 4, 8, 16] {
            for a in 0..(32 / w) {
                for b in (a + 1)..(32 / w) {
                    let mut o = *bg;
                    for t in 0..w {
                        o.swap(a * w + t, b * w + t);
                    }
                    if o != *bg {
                        differs(rep, o, format!("{}-byte words {} and {} swapped", w, a, b));
                    }
                    let mut o = *bg;
                    for t in 0..w {
                        o[a * w + t] = !o[a * w + t];
                        o[b * w + t] = !o[b * w + t];
                    }
                    differs(rep, o, format!("{}-byte words {} and {} complemented", w, a, b));
                }
            }
        }
        // slices of every length 0..=70 that agree on the common prefix
        let mut ext = [0u8; 80];
        ext[..32].copy_from_slice(bg);
        for len in 0..=70usize {
            ev(rep);
            let r = vcommon::catch(|| h == ext[..len]);
            if r != Ok(len == 32) {
                v(rep, "PartialEq<[u8]>:length", format!("slice of {} bytes sharing the prefix compares {:?}", len, r), json!({"kind": "eq-len", "background": bi, "len": len}));
            }
        }
    }
    // 6. serde
    #[cfg(feature = "serde")]
    serde_checks(rep, &bgs);
    #[cfg(not(feature = "serde"))]
    rep.notes.push("built without serde: serde conversions not explored in this build".into());
    rep.configs.push(crate::subject::config_json());
    rep.rule = "every byte value at every one of the 32 positions on three backgrounds through to_hex/Display/Debug/from_hex(&str,&[u8],String)/FromStr/[u8;32]/slices (lower and upper case); every byte value at every one of the 64 positions of a valid hex string (accept iff hex digit, value as defined); every length 0..=130 x 7 fillers; from_slice on every length 0..=70; equality for all 256 single-bit differences x 3 bases, all two-byte differences (every pair of positions x 16 mask pairs, +d/-d), all three-byte differences with cancelling masks, swapped / complemented words, and slices of every length sharing the prefix; FromStr on every length and 26 decorations (whitespace, prefixes, quotes) before / after / around a valid string; serde JSON and CBOR (sequence and byte-string forms) for every byte value at every position; non-trivial = distinct cases".into();
    rep.sample(json!({"kind": "from_hex-byte", "pos": 17, "value": 0x47, "expect": "Err"}));
    rep.sample(json!({"kind": "eq-len", "len": 31, "expect": "not equal"}));
    rep.assumptions.push("the 2^256 value space is decomposed per position (the code treats positions independently)".into());
}

#[cfg(feature = "serde")]
fn serde_checks(rep: &mut Report, bgs: &[[u8; 32]; 3]) {
    for (bi, bg) in bgs.iter().enumerate() {
        for pos in 0..32 {
            for val in 0..=255u8 {
                if bi != 2 && val % 17 != 0 {
                    continue;
                }
                let mut bytes = *bg;
                bytes[pos] = val;
                ev(rep);
                let case = json!({"kind": "serde", "background": bi, "pos": pos, "value": val});
                let r = vcommon::catch(|| -> Option<(&'static str, String)> {
                    let h = blake3::Hash::from_bytes(bytes);
                    // JSON: a sequence of 32 numbers
                    let js = vcommon::serde_json::to_string(&h).ok()?;
                    let want = vcommon::serde_json::to_string(&bytes.to_vec()).unwrap();
                    if js != want {
                        return Some(("serde:json-form", js));
                    }
                    let back: blake3::Hash = match vcommon::serde_json::from_str(&js) {
                        Ok(b) => b,
                        Err(e) => return Some(("serde:json-deserialize", e.to_string())),
                    };
                    if back.as_bytes() != &bytes {
                        return Some(("serde:json-roundtrip", back.to_hex().to_string()));
                    }
                    // CBOR sequence form
                    let mut cbor = Vec::new();
                    if ciborium::into_writer(&h, &mut cbor).is_err() {
                        return Some(("serde:cbor-serialize", "".into()));
                    }
                    let back: blake3::Hash = match ciborium::from_reader(&cbor[..]) {
                        Ok(b) => b,
                        Err(e) => return Some(("serde:cbor-deserialize", e.to_string())),
                    };
                    if back.as_bytes() != &bytes {
                        return Some(("serde:cbor-roundtrip", back.to_hex().to_string()));
                    }
                    // legacy byte-string form: major type 2, length 32
                    let mut legacy = vec![0x58u8, 0x20];
                    legacy.extend_from_slice(&bytes);
                    let back: blake3::Hash = match ciborium::from_reader(&legacy[..]) {
                        Ok(b) => b,
                        Err(e) => return Some(("serde:cbor-bytestring-deserialize", e.to_string())),
                    };
                    if back.as_bytes() != &bytes {
                        return Some(("serde:cbor-bytestring-roundtrip", back.to_hex().to_string()));
                    }
                    None
                });
                match r {
                    Ok(None) => {}
                    Ok(Some((k, w))) => v(rep, k, w, case),
                    Err(m) => v(rep, "serde:panic", m, case),
                }
            }
        }
    }
    // wrong-length encodings: whether they are rejected is not part of the property; they must not panic
    for len in [0usize, 1, 31, 33, 64] {
        ev(rep);
        let js = vcommon::serde_json::to_string(&vec![7u8; len]).unwrap();
        let r = vcommon::catch(|| vcommon::serde_json::from_str::<blake3::Hash>(&js).is_ok());
        if let Err(m) = r {
            v(rep, "serde:json-wrong-length-panics", format!("len {}: {}", len, m), json!({"kind": "serde-len", "len": len}));
        }
        let mut legacy = vec![0x58u8, len as u8];
        legacy.extend(std::iter::repeat(7u8).take(len));
        let r = vcommon::catch(|| ciborium::from_reader::<blake3::Hash, _>(&legacy[..]).is_ok());
        if let Err(m) = r {
            v(rep, "serde:cbor-wrong-length-panics", format!("len {}: {}", len, m), json!({"kind": "serde-cbor-len", "len": len}));
        }
    }
}

pub fn replay(v: &Value) -> bool {
    // the whole enumeration takes well under a second: re-run it and look for the same key
    let args = Args { prop: "C14".into(), tier: "quick".into(), seed: 1, report: String::new(), replay: None, jobs: 1, extra: Default::default() };
    let mut rep = Report::new(&args, "replay", "exploration");
    run(&args, &mut rep);
    let want = v["check"].as_str().unwrap_or("");
    for x in rep.violations.iter().take(3) {
        println!("violation {}: {}", x.key, x.summary);
    }
    rep.violations.iter().any(|x| x.key == want)
}
