//! C03: explicit-state exploration of the real `OutputReader`. From each root state every
//! operation of the alphabet is applied in every reachable reader state (merged on the complete
//! reader state) up to a depth bound; every byte returned is compared with the spec stream.
use crate::subject::{self, ModeSpec, P};
use std::collections::{HashMap, HashSet, VecDeque};
use vcommon::serde_json::{json, Value};
use vcommon::{Args, Report};

#[derive(Clone, Copy, Debug, PartialEq, Eq)]
pub enum XOp {
    Fill(usize),
    Read(usize),
    SetPosition(u64),
    SeekStart(u64),
    SeekCurrent(i64),
    SeekEnd(i64),
}

impl XOp {
    fn json(&self) -> Value {
        match self {
            XOp::Fill(n) => json!(["fill", n]),
            XOp::Read(n) => json!(["read", n]),
            XOp::SetPosition(p) => json!(["set_position", p.to_string()]),
            XOp::SeekStart(p) => json!(["seek_start", p.to_string()]),
            XOp::SeekCurrent(d) => json!(["seek_current", d.to_string()]),
            XOp::SeekEnd(d) => json!(["seek_end", d.to_string()]),
        }
    }
    fn from_json(v: &Value) -> Option<XOp> {
        let s = |i: usize| v[i].as_str().map(|x| x.to_string()).or_else(|| v[i].as_u64().map(|x| x.to_string()));
        Some(match v[0].as_str()? {
            "fill" => XOp::Fill(v[1].as_u64()? as usize),
            "read" => XOp::Read(v[1].as_u64()? as usize),
            "set_position" => XOp::SetPosition(s(1)?.parse().ok()?),
            "seek_start" => XOp::SeekStart(s(1)?.parse().ok()?),
            "seek_current" => XOp::SeekCurrent(s(1)?.parse().ok()?),
            "seek_end" => XOp::SeekEnd(s(1)?.parse().ok()?),
            _ => return None,
        })
    }
}

pub fn positions() -> Vec<u64> {
    let mut v: Vec<u64> = vec![0, 1, 31, 32, 33, 63, 64, 65, 127, 128, 1023, 1024];
    let ds: [i64; 8] = [-65, -64, -1, 0, 1, 63, 64, 65];
    for base in [64u64 * (1u64 << 32), 64u64 * ((1u64 << 32) - 16)] {
        for d in ds {
            v.push((base as i128 + d as i128) as u64);
        }
    }
    for e in [0u64, 1, 63, 64, 65, 1000] {
        v.push(u64::MAX - e);
    }
    // batches that start 1..15 blocks below the 2^32 carry, and below 2^31 (sign bit)
    v.extend([64 * ((1u64 << 32) - 5), 64 * ((1u64 << 32) - 11) + 1, 64 * ((1u64 << 31) - 3), 64 * ((1u64 << 31) - 9) - 1]);
    v.sort();
    v.dedup();
    v
}

pub const READ_SIZES: [usize; 16] = [0, 1, 31, 32, 33, 63, 64, 65, 127, 128, 129, 960, 1024, 1025, 1087, 2117];
pub const CURRENT_DELTAS: [i64; 11] =
    [i64::MIN, -(64i64 << 32), -65, -64, -1, 0, 1, 64, 65, 64i64 << 32, i64::MAX];
pub const END_ARGS: [i64; 4] = [0, -1, 1, i64::MIN];
pub const ROOT_LENS: [usize; 9] = [0, 1, 64, 65, 1024, 1025, 2048, 3 * 1024 + 7, 17 * 1024];

#[derive(Clone, Debug)]
pub struct Root {
    pub mode: ModeSpec,
    pub len: usize,
    pub via_hazmat: bool,
    pub depth: u32,
}

struct Oracle {
    node: b3spec::Node,
    blocks: HashMap<u64, [u8; 64]>,
}

impl Oracle {
    fn bytes(&mut self, p: u64, n: usize) -> Vec<u8> {
        let mut out = Vec::with_capacity(n);
        let mut pos = p as u128;
        let end = p as u128 + n as u128;
        while pos < end {
            let k = (pos / 64) as u64;
            let node = &self.node;
            let blk = *self.blocks.entry(k).or_insert_with(|| node.root_block(k));
            let off = (pos % 64) as usize;
            let take = core::cmp::min(64 - off as u128, end - pos) as usize;
            out.extend_from_slice(&blk[off..off + take]);
            pos += take as u128;
        }
        out
    }
}

fn make_root(root: &Root, data: &[u8]) -> Result<(blake3::OutputReader, b3spec::Node, [u8; 32]), String> {
    let spec_mode = root.mode.spec();
    let node = b3spec::node(&spec_mode, &data[..root.len], 0);
    let r = vcommon::catch(|| {
        let mut h = root.mode.hasher();
        h.update(&data[..root.len]);
        let hash = *h.finalize().as_bytes();
        if root.via_hazmat {
            // children CVs from the spec, combined by the real merge_subtrees_root_xof
            let l = b3spec::left_len(root.len as u64) as usize;
            let left = b3spec::node(&spec_mode, &data[..l], 0).chaining_value();
            let right = b3spec::node(&spec_mode, &data[l..root.len], (l / 1024) as u64).chaining_value();
            let rd = root.mode.with_hazmat(|m| blake3::hazmat::merge_subtrees_root_xof(&left, &right, m));
            (rd, hash)
        } else {
            (h.finalize_xof(), hash)
        }
    })?;
    Ok((r.0, node, r.1))
}

/// Apply `op` to `rd` (whose expected position is `p`), checking everything the property states.
/// Returns Ok(new expected position) or Err((key, expected, observed)).
fn step(rd: &mut blake3::OutputReader, p: u64, op: XOp, oracle: &mut Oracle, rep: &mut Report) -> Result<u64, (String, String, String)> {
    let before = subject::reader_bytes(rd);
    let r = vcommon::catch(|| -> Result<u64, (String, String, String)> {
        match op {
            XOp::Fill(n) | XOp::Read(n) => {
                let mut buf = vec![0xA5u8; n + 16];
                let (dst, canary) = buf.split_at_mut(n);
                if let XOp::Read(_) = op {
                    #[cfg(feature = "std")]
                    {
                        use std::io::Read;
                        match rd.read(dst) {
                            Ok(k) if k == n => {}
                            Ok(k) => return Err(("Read::read:short".into(), format!("Ok({})", n), format!("Ok({})", k))),
                            Err(e) => return Err(("Read::read:error".into(), format!("Ok({})", n), format!("Err({})", e))),
                        }
                    }
                    #[cfg(not(feature = "std"))]
                    rd.fill(dst);
                } else {
                    rd.fill(dst);
                }
                if canary.iter().any(|b| *b != 0xA5) {
                    return Err(("OutputReader::fill:writes-past-buffer".into(), "canary intact".into(), "canary overwritten".into()));
                }
                let exp = oracle.bytes(p, n);
                rep.inc("spec_comparisons");
                if dst != &exp[..] {
                    let first = dst.iter().zip(exp.iter()).position(|(a, b)| a != b).unwrap_or(0);
                    return Err((
                        "OutputReader::fill:mismatch".into(),
                        format!("S[{}..+{}] (first difference at +{})", p, n, first),
                        format!("got {} want {}", vcommon::hex(&dst[first..(first + 8).min(n)]), vcommon::hex(&exp[first..(first + 8).min(n)])),
                    ));
                }
                Ok(p + n as u64)
            }
            XOp::SetPosition(q) => {
                rd.set_position(q);
                Ok(q)
            }
            #[cfg(feature = "std")]
            XOp::SeekStart(q) => {
                use std::io::Seek;
                match rd.seek(std::io::SeekFrom::Start(q)) {
                    Ok(r) if r == q => Ok(q),
                    Ok(r) => Err(("Seek::seek(Start):wrong-return".into(), format!("Ok({})", q), format!("Ok({})", r))),
                    Err(e) => Err(("Seek::seek(Start):error".into(), format!("Ok({})", q), format!("Err({})", e))),
                }
            }
            #[cfg(feature = "std")]
            XOp::SeekCurrent(d) => {
                use std::io::Seek;
                let target = p as i128 + d as i128;
                let res = rd.seek(std::io::SeekFrom::Current(d));
                if target < 0 {
                    match res {
                        Err(_) => Ok(p),
                        Ok(r) => Err(("Seek::seek(Current):negative-accepted".into(), "Err".into(), format!("Ok({})", r))),
                    }
                } else {
                    let want = core::cmp::min(target, u64::MAX as i128) as u64;
                    match res {
                        Ok(r) if r == want => Ok(want),
                        Ok(r) => Err(("Seek::seek(Current):wrong-return".into(), format!("Ok({})", want), format!("Ok({})", r))),
                        Err(e) => Err(("Seek::seek(Current):error".into(), format!("Ok({})", want), format!("Err({})", e))),
                    }
                }
            }
            #[cfg(feature = "std")]
            XOp::SeekEnd(x) => {
                use std::io::Seek;
                match rd.seek(std::io::SeekFrom::End(x)) {
                    Err(_) => Ok(p),
                    Ok(r) => Err(("Seek::seek(End):accepted".into(), "Err".into(), format!("Ok({})", r))),
                }
            }
            #[cfg(not(feature = "std"))]
            XOp::SeekStart(q) => {
                rd.set_position(q);
                Ok(q)
            }
            #[cfg(not(feature = "std"))]
            XOp::SeekCurrent(_) | XOp::SeekEnd(_) => Ok(p),
        }
    });
    let np = match r {
        Ok(Ok(np)) => np,
        Ok(Err(v)) => return Err(v),
        Err(m) => return Err(("OutputReader::op:panic".into(), "no panic".into(), format!("panic: {}", m))),
    };
    // failed seeks and zero-length reads leave the complete state unchanged
    let unchanged_expected = match op {
        XOp::Fill(0) | XOp::Read(0) | XOp::SeekEnd(_) => true,
        XOp::SeekCurrent(d) => (p as i128 + d as i128) < 0,
        _ => false,
    };
    if unchanged_expected && subject::reader_bytes(rd) != before {
        return Err(("OutputReader::noop:changes-state".into(), "state unchanged".into(), "state changed".into()));
    }
    match vcommon::catch(|| rd.position()) {
        Ok(q) if q == np => {}
        Ok(q) => return Err(("OutputReader::position:wrong".into(), format!("{}", np), format!("{}", q))),
        Err(m) => return Err(("OutputReader::position:panic".into(), "no panic".into(), m)),
    }
    Ok(np)
}

fn enabled(p: u64, positions: &[u64]) -> Vec<XOp> {
    let mut v = vec![];
    for &n in READ_SIZES.iter() {
        if (p as u128) + (n as u128) <= u64::MAX as u128 {
            v.push(XOp::Fill(n));
        }
    }
    // Read::read is checked against fill on a rotating subset, to bound the cost
    for &n in [0usize, 1, 64, 65, 1087].iter() {
        if (p as u128) + (n as u128) <= u64::MAX as u128 {
            v.push(XOp::Read(n));
        }
    }
    for &q in positions {
        v.push(XOp::SetPosition(q));
        v.push(XOp::SeekStart(q));
    }
    for d in CURRENT_DELTAS {
        v.push(XOp::SeekCurrent(d));
    }
    for x in END_ARGS {
        v.push(XOp::SeekEnd(x));
    }
    v
}

struct XSt {
    rd: blake3::OutputReader,
    p: u64,
    depth: u32,
    node: usize,
}

fn replay_json(root: &Root, lname: &str, ops: &[XOp], key: &str, exp: &str, obs: &str) -> Value {
    json!({"property": "C03", "engine": "core/xof_bfs", "subject": "OutputReader",
           "config": {"flavour": subject::flavour(), "features": subject::features(), "level": lname},
           "mode": root.mode.json(), "stream": "A", "seed": subject::seed(),
           "root": {"input_len": root.len, "via": if root.via_hazmat { "merge_subtrees_root_xof" } else { "finalize_xof" }},
           "ops": ops.iter().map(|o| o.json()).collect::<Vec<_>>(), "check": key, "expected": exp, "observed": obs})
}

pub fn explore(root: &Root, lname: &str, level: P, rep: &mut Report) {
    subject::force(Some(level));
    let data = vcommon::stream_a(root.len.max(1));
    let positions = positions();
    let (rd0, node, hash) = match make_root(root, &data) {
        Ok(x) => x,
        Err(m) => {
            rep.violation("OutputReader::root:panic", format!("building the root panics: {}", m), replay_json(root, lname, &[], "OutputReader::root:panic", "no panic", &m));
            subject::force(None);
            return;
        }
    };
    let mut oracle = Oracle { node, blocks: HashMap::new() };
    // the first 32 bytes of the stream are the hash
    if oracle.bytes(0, 32) != hash {
        rep.violation("OutputReader::root:hash-differs-from-stream", "finalize() != spec S[0..32]".into(),
            replay_json(root, lname, &[], "OutputReader::root:hash-differs-from-stream", "S[0..32]", &vcommon::hex(&hash)));
    }
    let mut arena: Vec<(usize, XOp)> = vec![(0, XOp::Fill(0))];
    let path = |arena: &Vec<(usize, XOp)>, mut n: usize| {
        let mut v = vec![];
        while n != 0 {
            v.push(arena[n].1);
            n = arena[n].0;
        }
        v.reverse();
        v
    };
    let mut seen: HashSet<u128> = HashSet::new();
    seen.insert(vcommon::fingerprint(&subject::reader_bytes(&rd0)));
    rep.inc("states");
    let mut queue = VecDeque::new();
    queue.push_back(XSt { rd: rd0, p: 0, depth: 0, node: 0 });
    let mut sampled = false;
    let mut obs: HashSet<u64> = HashSet::new();
    while let Some(st) = queue.pop_front() {
        let before = subject::reader_bytes(&st.rd);
        // clone is the same state
        if subject::reader_bytes(&st.rd.clone()) != before {
            rep.violation("OutputReader::clone:differs", "clone differs".into(), replay_json(root, lname, &path(&arena, st.node), "OutputReader::clone:differs", "same", "differs"));
        }
        // ... and so is clone_from into a reader of another stream at another position
        let mut other = blake3::Hasher::new_keyed(&[0x33; 32]).finalize_xof();
        other.set_position(77 + st.p % 1000);
        other.clone_from(&st.rd);
        if subject::reader_bytes(&other) != before {
            rep.violation("OutputReader::clone_from:differs", "clone_from differs".into(), replay_json(root, lname, &path(&arena, st.node), "OutputReader::clone_from:differs", "same", "differs"));
        }
        if st.depth >= root.depth {
            // frontier states still get their invariants (position, purity) checked by `step` on arrival
            continue;
        }
        for op in enabled(st.p, &positions) {
            let mut succ = st.rd.clone();
            rep.inc("transitions");
            rep.inc("evaluations");
            match step(&mut succ, st.p, op, &mut oracle, rep) {
                Err((key, exp, o)) => {
                    let mut ops = path(&arena, st.node);
                    ops.push(op);
                    rep.violation(&key, format!("{} root len {} at {}: {:?}: expected {}, observed {}", root.mode.name(), root.len, lname, ops, exp, o),
                        replay_json(root, lname, &ops, &key, &exp, &o));
                    continue;
                }
                Ok(np) => {
                    obs.insert(np);
                    // Read must be the same transition as fill; Seek(Start) the same as set_position
                    let twin = match op {
                        XOp::Read(n) => Some(XOp::Fill(n)),
                        XOp::SeekStart(q) => Some(XOp::SetPosition(q)),
                        _ => None,
                    };
                    if let Some(t) = twin {
                        let mut other = st.rd.clone();
                        let _ = step(&mut other, st.p, t, &mut oracle, rep);
                        if subject::reader_bytes(&other) != subject::reader_bytes(&succ) {
                            let mut ops = path(&arena, st.node);
                            ops.push(op);
                            rep.violation("OutputReader::twin-ops-differ", format!("{:?} and {:?} leave different states", op, t),
                                replay_json(root, lname, &ops, "OutputReader::twin-ops-differ", "same state", "different"));
                            continue;
                        }
                    }
                    let fp = vcommon::fingerprint(&subject::reader_bytes(&succ));
                    if !seen.insert(fp) {
                        rep.inc("merges");
                        continue;
                    }
                    rep.inc("states");
                    arena.push((st.node, op));
                    let node = arena.len() - 1;
                    rep.max("max_path_len", (st.depth + 1) as u64);
                    if st.depth + 1 >= 2 {
                        rep.inc("distinct_nontrivial");
                    }
                    if !sampled && st.depth + 1 == 2 && matches!(op, XOp::Fill(n) if n > 64) {
                        sampled = true;
                        rep.sample(json!({"mode": root.mode.json(), "level": lname, "root_input_len": root.len,
                            "via": if root.via_hazmat { "merge_subtrees_root_xof" } else { "finalize_xof" },
                            "ops": path(&arena, node).iter().map(|o| o.json()).collect::<Vec<_>>()}));
                    }
                    queue.push_back(XSt { rd: succ, p: np, depth: st.depth + 1, node });
                }
            }
        }
        // operating on clones never touched the original
        if subject::reader_bytes(&st.rd) != before {
            rep.violation("OutputReader::clone:aliasing", "original changed by operations on clones".into(),
                replay_json(root, lname, &path(&arena, st.node), "OutputReader::clone:aliasing", "unchanged", "changed"));
        }
    }
    rep.add("distinct_observations", obs.len() as u64);
    subject::force(None);
}

/// Large single transfers (the BFS alphabet stops at 2117 bytes): fill and Read::read of sizes around
/// 4 KiB .. 1 MiB from positions on both sides of a block boundary and of block counter 2^32, each
/// followed by a small fill that must continue the stream. Same `step` oracle, same replay format.
fn large_transfers(root: &Root, lname: &str, level: P, thorough: bool, rep: &mut Report) {
    subject::force(Some(level));
    let data = vcommon::stream_a(root.len.max(1));
    let (rd0, node, _) = match make_root(root, &data) {
        Ok(x) => x,
        Err(_) => {
            subject::force(None);
            return; // reported by explore
        }
    };
    let mut oracle = Oracle { node, blocks: HashMap::new() };
    let mut sizes = vec![4096usize, 16 * 1024 + 1, 65535, 65536, 65537, 128 * 1024 + 1];
    if thorough {
        sizes.extend([32 * 1024 - 1, 64 * 1024 + 64, 256 * 1024, (1 << 20) + 3]);
    }
    let starts = [0u64, 1, 63, 64, 64 * (1u64 << 32) - 64 * 700 - 1, 64 * (1u64 << 32) - 64];
    for &p0 in &starts {
        for &n in &sizes {
            for read in [false, true] {
                let big = if read { XOp::Read(n) } else { XOp::Fill(n) };
                let ops = [XOp::SetPosition(p0), big, XOp::Fill(100)];
                let mut rd = rd0.clone();
                let mut p = 0u64;
                rep.inc("large_transfer_histories");
                rep.inc("distinct_nontrivial");
                for (i, op) in ops.iter().enumerate() {
                    rep.inc("transitions");
                    rep.inc("evaluations");
                    match step(&mut rd, p, *op, &mut oracle, rep) {
                        Ok(np) => p = np,
                        Err((key, exp, o)) => {
                            rep.violation(&key, format!("{} root len {} at {}: {:?}: expected {}, observed {}", root.mode.name(), root.len, lname, &ops[..=i], exp, o),
                                replay_json(root, lname, &ops[..=i], &key, &exp, &o));
                            break;
                        }
                    }
                }
                // the oracle's block cache would otherwise grow to the whole stream read so far
                oracle.blocks.clear();
            }
        }
    }
    subject::force(None);
}

pub fn run(args: &Args, rep: &mut Report) {
    let t = args.thorough();
    let levels = subject::levels();
    let mut items = vec![];
    for m in subject::primary_modes() {
        for (i, &len) in ROOT_LENS.iter().enumerate() {
            // deeper exploration for two roots in the quick tier, for all in the thorough tier
            let depth = if t { 6 } else if i == 3 || i == 5 { 5 } else { 4 };
            items.push(Root { mode: m.clone(), len, via_hazmat: false, depth });
        }
        for &len in [1025usize, 2048, 17 * 1024].iter() {
            items.push(Root { mode: m.clone(), len, via_hazmat: true, depth: if t { 5 } else { 4 } });
        }
    }
    if t {
        items.push(Root { mode: ModeSpec::Hash, len: 65, via_hazmat: false, depth: 7 });
    }
    let mut work = vec![];
    for r in items {
        for l in &levels {
            work.push((r.clone(), l.clone()));
        }
    }
    work.sort_by_key(|(r, _)| std::cmp::Reverse(r.depth));
    let r = vcommon::par_run(args.jobs, work, rep, |(root, (lname, level)), local| explore(root, lname, *level, local));
    rep.merge(r);
    let mut big = vec![];
    for m in subject::primary_modes() {
        for (len, via_hazmat) in [(0usize, false), (1025, false), (2048, true)] {
            for l in &levels {
                big.push((Root { mode: m.clone(), len, via_hazmat, depth: 3 }, l.clone()));
            }
        }
    }
    let r = vcommon::par_run(args.jobs, big, rep, |(root, (lname, level)), local| large_transfers(root, lname, *level, t, local));
    rep.merge(r);
    let tr = rep.get("transitions");
    rep.counters.insert("traces_validated_against_impl".into(), tr);
    rep.configs.push(subject::config_json());
    rep.rule = "BFS over the real OutputReader from each root (input lengths x 3 modes x finalize_xof / merge_subtrees_root_xof x every SIMD level): fill(n), Read::read(n), set_position(p), seek(Start/Current/End) from every reachable reader state, merged on the complete reader state, depth-bounded; plus single large transfers (fill and Read::read of 4 KiB .. 128 KiB (1 MiB thorough) from six positions incl. across block counter 2^32, each followed by a small fill); every returned byte compared with the spec stream, positions and error behaviour checked; non-trivial = distinct states at depth >= 2".into();
    rep.extra.insert("bounds".into(), json!({"read_sizes": READ_SIZES, "positions": positions().iter().map(|p| p.to_string()).collect::<Vec<_>>(),
        "current_deltas": CURRENT_DELTAS.iter().map(|p| p.to_string()).collect::<Vec<_>>(), "root_input_lens": ROOT_LENS,
        "depth": if t { "6 (7 for one root, 5 for hazmat roots)" } else { "4 (5 for two roots per mode)" }}));
    rep.assumptions.push("reads are only issued while p+n <= 2^64-1 (behaviour beyond is unspecified)".into());
    rep.assumptions.push("root inputs are prefixes of stream A".into());
}

pub fn replay(v: &Value) -> bool {
    let root = Root {
        mode: ModeSpec::from_json(&v["mode"]),
        len: v["root"]["input_len"].as_u64().unwrap_or(0) as usize,
        via_hazmat: v["root"]["via"].as_str() == Some("merge_subtrees_root_xof"),
        depth: 0,
    };
    let level = v["config"]["level"].as_str().unwrap_or("");
    let lv = subject::levels().into_iter().find(|l| l.0 == level).expect("level not available");
    subject::force(Some(lv.1));
    let data = vcommon::stream_a(root.len.max(1));
    let (mut rd, node, hash) = match make_root(&root, &data) {
        Ok(x) => x,
        Err(m) => {
            println!("violation: root panics: {}", m);
            return true;
        }
    };
    let mut oracle = Oracle { node, blocks: HashMap::new() };
    if oracle.bytes(0, 32) != hash {
        println!("violation: finalize() differs from S[0..32]");
        return true;
    }
    let mut rep = Report::new(
        &Args { prop: "replay".into(), tier: "quick".into(), seed: 1, report: String::new(), replay: None, jobs: 1, extra: Default::default() },
        "replay",
        "model_checking",
    );
    let mut p = 0u64;
    let clone_ok = |rd: &blake3::OutputReader| subject::reader_bytes(&rd.clone()) == subject::reader_bytes(rd);
    if !clone_ok(&rd) {
        println!("violation: a clone of the fresh reader differs from it");
        return true;
    }
    for o in v["ops"].as_array().unwrap().iter().filter_map(XOp::from_json) {
        let prev = rd.clone();
        match step(&mut rd, p, o, &mut oracle, &mut rep) {
            Ok(np) => {
                let twin = match o {
                    XOp::Read(n) => Some(XOp::Fill(n)),
                    XOp::SeekStart(q) => Some(XOp::SetPosition(q)),
                    _ => None,
                };
                if let Some(t) = twin {
                    let mut other = prev.clone();
                    let _ = step(&mut other, p, t, &mut oracle, &mut rep);
                    if subject::reader_bytes(&other) != subject::reader_bytes(&rd) {
                        println!("violation: {:?} and {:?} leave different states", o, t);
                        return true;
                    }
                }
                p = np;
                if !clone_ok(&rd) {
                    println!("violation: after {:?} a clone of the reader differs from it", o);
                    return true;
                }
            }
            Err((k, e, ob)) => {
                println!("violation {} at {:?}: expected {}, observed {}", k, o, e, ob);
                return true;
            }
        }
    }
    println!("no violation along this history");
    false
}
