//! Shared subject plumbing: forced platforms, modes, state serialisation.
use std::cell::Cell;
use vcommon::serde_json::{json, Value};

pub type P = blake3::platform::Platform;

thread_local! {
    static FORCED: Cell<Option<P>> = const { Cell::new(None) };
}

fn detect_hook() -> Option<P> {
    FORCED.with(|c| c.get())
}

static SEED: std::sync::atomic::AtomicU64 = std::sync::atomic::AtomicU64::new(1);
pub fn set_seed(s: u64) {
    SEED.store(s, std::sync::atomic::Ordering::SeqCst);
}
pub fn seed() -> u64 {
    SEED.load(std::sync::atomic::Ordering::SeqCst)
}

pub fn install_hooks() {
    blake3::verif_hooks::set_detect_hook(Some(detect_hook));
}

/// Force `Platform::detect()` on this thread (None = real detection).
pub fn force(p: Option<P>) {
    FORCED.with(|c| c.set(p));
}

pub fn forced() -> Option<P> {
    FORCED.with(|c| c.get())
}

pub fn pname(p: P) -> String {
    format!("{:?}", p).to_lowercase()
}

/// Every level this CPU and this build flavour can execute, narrowest first.
pub fn levels() -> Vec<(String, P)> {
    let mut v = vec![("portable".to_string(), P::portable())];
    #[cfg(any(target_arch = "x86", target_arch = "x86_64"))]
    {
        if let Some(p) = P::sse2() {
            v.push(("sse2".into(), p));
        }
        if let Some(p) = P::sse41() {
            v.push(("sse41".into(), p));
        }
        if let Some(p) = P::avx2() {
            v.push(("avx2".into(), p));
        }
        #[cfg(not(feature = "pure"))]
        if let Some(p) = P::avx512() {
            v.push(("avx512".into(), p));
        }
    }
    v
}

pub fn flavour() -> &'static str {
    if cfg!(feature = "pure") {
        "pure"
    } else if cfg!(feature = "prefer_intrinsics") {
        "prefer_intrinsics"
    } else {
        "asm"
    }
}

pub fn features() -> String {
    let mut f = vec![];
    if cfg!(feature = "std") {
        f.push("std");
    }
    if cfg!(feature = "rayon") {
        f.push("rayon");
    }
    if cfg!(feature = "mmap") {
        f.push("mmap");
    }
    if cfg!(feature = "serde") {
        f.push("serde");
    }
    if cfg!(feature = "zeroize") {
        f.push("zeroize");
    }
    if cfg!(feature = "traits") {
        f.push("traits-preview");
    }
    if f.is_empty() {
        "none".into()
    } else {
        f.join(",")
    }
}

pub fn config_json() -> Value {
    json!({"flavour": flavour(), "features": features(), "debug_assertions": cfg!(debug_assertions),
           "levels": levels().iter().map(|l| l.0.clone()).collect::<Vec<_>>()})
}

#[derive(Clone, Debug, PartialEq, Eq, Hash)]
pub enum ModeSpec {
    Hash,
    Keyed([u8; 32]),
    Derive(String),
    /// derive-key mode entered through hazmat::new_from_context_key
    DeriveCk(String),
}

impl ModeSpec {
    pub fn name(&self) -> String {
        match self {
            ModeSpec::Hash => "hash".into(),
            ModeSpec::Keyed(k) => format!("keyed:{}", vcommon::hex(&k[..4])),
            ModeSpec::Derive(c) => format!("derive:len{}:{}", c.len(), vcommon::hex(&c.as_bytes()[..c.len().min(4)])),
            ModeSpec::DeriveCk(c) => format!("derive_ck:len{}:{}", c.len(), vcommon::hex(&c.as_bytes()[..c.len().min(4)])),
        }
    }
    pub fn json(&self) -> Value {
        match self {
            ModeSpec::Hash => json!({"kind": "hash"}),
            ModeSpec::Keyed(k) => json!({"kind": "keyed", "key_hex": vcommon::hex(k)}),
            ModeSpec::Derive(c) => json!({"kind": "derive", "context": c}),
            ModeSpec::DeriveCk(c) => json!({"kind": "derive_from_context_key", "context": c}),
        }
    }
    pub fn from_json(v: &Value) -> ModeSpec {
        match v["kind"].as_str().unwrap_or("hash") {
            "keyed" => {
                let h = v["key_hex"].as_str().unwrap();
                let mut k = [0u8; 32];
                for i in 0..32 {
                    k[i] = u8::from_str_radix(&h[2 * i..2 * i + 2], 16).unwrap();
                }
                ModeSpec::Keyed(k)
            }
            "derive" => ModeSpec::Derive(v["context"].as_str().unwrap().to_string()),
            "derive_from_context_key" => ModeSpec::DeriveCk(v["context"].as_str().unwrap().to_string()),
            _ => ModeSpec::Hash,
        }
    }
    pub fn spec(&self) -> b3spec::Mode {
        match self {
            ModeSpec::Hash => b3spec::Mode::hash(),
            ModeSpec::Keyed(k) => b3spec::Mode::keyed(k),
            ModeSpec::Derive(c) | ModeSpec::DeriveCk(c) => b3spec::Mode::derive(c.as_bytes()),
        }
    }
    pub fn hasher(&self) -> blake3::Hasher {
        match self {
            ModeSpec::Hash => blake3::Hasher::new(),
            ModeSpec::Keyed(k) => blake3::Hasher::new_keyed(k),
            ModeSpec::Derive(c) => blake3::Hasher::new_derive_key(c),
            ModeSpec::DeriveCk(c) => {
                use blake3::hazmat::HasherExt;
                let ck = blake3::hazmat::hash_derive_key_context(c);
                blake3::Hasher::new_from_context_key(&ck)
            }
        }
    }
    pub fn oneshot(&self, input: &[u8]) -> [u8; 32] {
        match self {
            ModeSpec::Hash => *blake3::hash(input).as_bytes(),
            ModeSpec::Keyed(k) => *blake3::keyed_hash(k, input).as_bytes(),
            ModeSpec::Derive(c) | ModeSpec::DeriveCk(c) => blake3::derive_key(c, input),
        }
    }
    /// The hazmat `Mode` value for merge_subtrees_* calls, via a closure because it borrows.
    pub fn with_hazmat<R>(&self, f: impl FnOnce(blake3::hazmat::Mode) -> R) -> R {
        match self {
            ModeSpec::Hash => f(blake3::hazmat::Mode::Hash),
            ModeSpec::Keyed(k) => f(blake3::hazmat::Mode::KeyedHash(k)),
            ModeSpec::Derive(c) | ModeSpec::DeriveCk(c) => {
                let ck = blake3::hazmat::hash_derive_key_context(c);
                f(blake3::hazmat::Mode::DeriveKeyMaterial(&ck))
            }
        }
    }
}

pub fn primary_modes() -> Vec<ModeSpec> {
    vec![
        ModeSpec::Hash,
        ModeSpec::Keyed(*vcommon::TEST_KEY),
        ModeSpec::Derive(vcommon::TEST_CONTEXT.to_string()),
    ]
}

pub fn context_of_len(n: usize) -> String {
    // ASCII, deterministic, not periodic with the block size
    (0..n).map(|i| (b'a' + ((i * 7 + i / 13) % 26) as u8) as char).collect()
}

pub fn secondary_modes(thorough: bool) -> Vec<ModeSpec> {
    let mut v = vec![ModeSpec::Keyed([0u8; 32]), ModeSpec::Keyed([0xff; 32])];
    for n in [0usize, 1, 63, 64, 65, 1023, 1024, 1025, 3000] {
        v.push(ModeSpec::Derive(context_of_len(n)));
    }
    v.push(ModeSpec::Derive("ключ 🔑 clé".to_string()));
    v.push(ModeSpec::DeriveCk(vcommon::TEST_CONTEXT.to_string()));
    if thorough {
        for bit in 0..256 {
            let mut k = [0u8; 32];
            k[bit / 8] = 1 << (bit % 8);
            v.push(ModeSpec::Keyed(k));
        }
    }
    v
}

/// The complete live state of a Hasher as bytes (every field, via the H4 hook).
pub fn hasher_bytes(h: &blake3::Hasher) -> Vec<u8> {
    let s = h.verif_state();
    let mut out = Vec::with_capacity(2048);
    for w in s.key {
        out.extend_from_slice(&w.to_le_bytes());
    }
    chunk_state_bytes(&s.chunk_state, &mut out);
    out.extend_from_slice(&s.initial_chunk_counter.to_le_bytes());
    out.extend_from_slice(&(s.cv_stack_len as u64).to_le_bytes());
    for cv in s.cv_stack.iter() {
        out.extend_from_slice(cv);
    }
    out
}

pub fn chunk_state_bytes(c: &blake3::verif_hooks::VerifChunkState, out: &mut Vec<u8>) {
    for w in c.cv {
        out.extend_from_slice(&w.to_le_bytes());
    }
    out.extend_from_slice(&c.chunk_counter.to_le_bytes());
    out.extend_from_slice(&c.buf);
    out.push(c.buf_len);
    out.push(c.blocks_compressed);
    out.push(c.flags);
    out.push(c.platform as u8);
}

pub fn reader_bytes(r: &blake3::OutputReader) -> Vec<u8> {
    let s = r.verif_state();
    let mut out = Vec::with_capacity(128);
    for w in s.input_chaining_value {
        out.extend_from_slice(&w.to_le_bytes());
    }
    out.extend_from_slice(&s.block);
    out.push(s.block_len);
    out.extend_from_slice(&s.counter.to_le_bytes());
    out.push(s.flags);
    out.push(s.platform as u8);
    out.push(s.position_within_block);
    out
}

pub fn words_of(block: &[u8; 64]) -> Vec<u32> {
    (0..16).map(|i| u32::from_le_bytes([block[4 * i], block[4 * i + 1], block[4 * i + 2], block[4 * i + 3]])).collect()
}
