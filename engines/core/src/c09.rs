//! C09: hazmat subtree hashing composes. Every node of every small tree, every recursive
//! decomposition, fixed groupings, high offsets, and the two length helpers.
use crate::subject::{self, ModeSpec, P};
use blake3::hazmat::{self, HasherExt};
use std::collections::HashSet;
use vcommon::serde_json::{json, Value};
use vcommon::{Args, Report};

fn modes() -> Vec<ModeSpec> {
    let mut m = subject::primary_modes();
    m.push(ModeSpec::DeriveCk(vcommon::TEST_CONTEXT.to_string()));
    m
}

/// Update splits used inside one subtree.
fn split_plans(len: usize) -> Vec<Vec<usize>> {
    let mut plans = vec![vec![len]];
    // fine cycling pieces
    let cyc = [1usize, 63, 64, 65, 1023, 1024, 1025, 127, 960];
    let mut v = vec![];
    let mut left = len;
    let mut i = 0;
    while left > 0 {
        let k = cyc[i % cyc.len()].min(left);
        v.push(k);
        left -= k;
        i += 1;
    }
    plans.push(v);
    // chunk by chunk
    if len > 1024 {
        let mut v = vec![];
        let mut left = len;
        while left > 0 {
            let k = 1024.min(left);
            v.push(k);
            left -= k;
        }
        plans.push(v);
        // odd head then the rest (large aligned remainder after an odd prefix)
        plans.push(vec![1, len - 1]);
        plans.push(vec![1025.min(len - 1), len - 1025.min(len - 1)]);
        plans.push(vec![len - 1, 1]);
    }
    plans
}

fn subtree_cv(mode: &ModeSpec, offset: u64, bytes: &[u8], plan: &[usize]) -> Result<[u8; 32], String> {
    vcommon::catch(|| {
        let mut h = mode.hasher();
        if plan.len() % 2 == 0 {
            // the offset may be set more than once before any input: the last call wins
            h.set_input_offset(if offset == 0 { 7 * 1024 } else { 0 });
        }
        h.set_input_offset(offset);
        let mut at = 0;
        for &k in plan {
            h.update(&bytes[at..at + k]);
            at += k;
        }
        assert_eq!(at, bytes.len());
        assert_eq!(h.count(), bytes.len() as u64, "count() after subtree updates");
        h.finalize_non_root()
    })
}

fn rj(mode: &ModeSpec, lname: &str, what: Value, key: &str, exp: String, obs: String) -> Value {
    json!({"property": "C09", "engine": "core/hazmat", "config": {"flavour": subject::flavour(), "features": subject::features(), "level": lname},
           "mode": mode.json(), "stream": "A", "seed": subject::seed(), "case": what, "check": key, "expected": exp, "observed": obs})
}

/// 1. every node of the tree over data[..len], at base chunk index `base`.
fn every_node(mode: &ModeSpec, lname: &str, data: &[u8], len: usize, base: u64, oracle: &mut b3spec::StreamOracle, rep: &mut Report, seen: &mut HashSet<u128>) {
    let mut stack = vec![(0usize, len)];
    while let Some((lo, hi)) = stack.pop() {
        let n = hi - lo;
        let first_chunk = base + (lo / 1024) as u64;
        let exp = oracle.node_range(lo, hi, first_chunk).chaining_value();
        for plan in split_plans(n) {
            rep.inc("evaluations");
            rep.inc("spec_comparisons");
            let d = format!("node|{}|{}|{}|{}|{}|{:?}", lname, mode.name(), base, lo, hi, plan.len());
            if seen.insert(vcommon::fingerprint(d.as_bytes())) {
                rep.inc("distinct_nontrivial");
            }
            let case = json!({"kind": "node", "input_len": len, "base_chunk": base.to_string(), "lo": lo, "hi": hi, "plan": plan});
            match subtree_cv(mode, first_chunk * 1024, &data[lo..hi], &plan) {
                Ok(cv) if cv == exp => {}
                Ok(cv) => rep.violation("hazmat:subtree-cv:mismatch",
                    format!("{} subtree [{},{}) of {} bytes at chunk {} ({}), plan {:?}: CV differs from the spec", mode.name(), lo, hi, len, first_chunk, lname, plan),
                    rj(mode, lname, case, "hazmat:subtree-cv:mismatch", vcommon::hex(&exp), vcommon::hex(&cv))),
                Err(m) => rep.violation("hazmat:subtree-cv:panic",
                    format!("{} subtree [{},{}) at chunk {} ({}) panics: {}", mode.name(), lo, hi, first_chunk, lname, m),
                    rj(mode, lname, case, "hazmat:subtree-cv:panic", "no panic".into(), m)),
            }
        }
        if n > 1024 {
            let l = b3spec::left_len(n as u64) as usize;
            stack.push((lo, lo + l));
            stack.push((lo + l, hi));
        }
    }
}

/// 2. all recursive decompositions of [lo,hi): each way of choosing, per node, "hash as one
/// subtree" or "split and merge". Returns the number of decompositions executed; every one must
/// give the spec CV.
fn decompositions(mode: &ModeSpec, lname: &str, data: &[u8], lo: usize, hi: usize, oracle: &mut b3spec::StreamOracle, rep: &mut Report, bad: &mut bool) -> (u64, [u8; 32]) {
    let n = hi - lo;
    let exp = oracle.node_range(lo, hi, (lo / 1024) as u64).chaining_value();
    // as a leaf group
    let mut count = 1u64;
    rep.inc("evaluations");
    match subtree_cv(mode, lo as u64, &data[lo..hi], &[n]) {
        Ok(cv) if cv == exp => {}
        other => {
            *bad = true;
            rep.violation("hazmat:decomposition:leaf-mismatch", format!("leaf group [{},{}) ({}) {:?}", lo, hi, lname, other.as_ref().map(|c| vcommon::hex(c))),
                rj(mode, lname, json!({"kind": "decomposition-leaf", "lo": lo, "hi": hi}), "hazmat:decomposition:leaf-mismatch", vcommon::hex(&exp), format!("{:?}", other.map(|c| vcommon::hex(&c)))));
        }
    }
    if n > 1024 {
        let l = b3spec::left_len(n as u64) as usize;
        let (dl, lcv) = decompositions(mode, lname, data, lo, lo + l, oracle, rep, bad);
        let (dr, rcv) = decompositions(mode, lname, data, lo + l, hi, oracle, rep, bad);
        // every (left way, right way) pair yields these same two CVs (each was checked == spec),
        // so the merge is executed once per pair class but counted per pair
        let merged = vcommon::catch(|| mode.with_hazmat(|m| hazmat::merge_subtrees_non_root(&lcv, &rcv, m)));
        rep.inc("evaluations");
        rep.inc("spec_comparisons");
        match merged {
            Ok(cv) if cv == exp => {}
            other => {
                *bad = true;
                rep.violation("hazmat:merge_subtrees_non_root:mismatch", format!("{} merge of [{},{},{}) at {}", mode.name(), lo, lo + l, hi, lname),
                    rj(mode, lname, json!({"kind": "merge", "lo": lo, "mid": lo + l, "hi": hi}), "hazmat:merge_subtrees_non_root:mismatch", vcommon::hex(&exp), format!("{:?}", other.map(|c| vcommon::hex(&c)))));
            }
        }
        count += dl * dr;
    }
    (count, exp)
}

const XOF_POS: [(u64, usize); 5] = [(0, 131), (63, 130), (1024, 65), (64 * (1u64 << 32) - 1, 66), (u64::MAX - 70, 70)];

fn root_checks(mode: &ModeSpec, lname: &str, data: &[u8], len: usize, lcv: &[u8; 32], rcv: &[u8; 32], oracle: &mut b3spec::StreamOracle, rep: &mut Report, what: Value) {
    let node = oracle.node_range(0, len, 0);
    let exp32 = &node.root_block(0)[..32];
    rep.inc("evaluations");
    rep.inc("spec_comparisons");
    let got = vcommon::catch(|| mode.with_hazmat(|m| *hazmat::merge_subtrees_root(lcv, rcv, m).as_bytes()));
    match got {
        Ok(h) if h == exp32 => {}
        other => rep.violation("hazmat:merge_subtrees_root:mismatch", format!("{} root of {} bytes at {}", mode.name(), len, lname),
            rj(mode, lname, what.clone(), "hazmat:merge_subtrees_root:mismatch", vcommon::hex(exp32), format!("{:?}", other.map(|c| vcommon::hex(&c))))),
    }
    // and it equals the one-shot function on the whole input
    match vcommon::catch(|| mode.oneshot(&data[..len])) {
        Ok(h) if h == exp32 => {}
        other => rep.violation("hazmat:oneshot-differs", format!("{} one-shot of {} bytes at {}", mode.name(), len, lname),
            rj(mode, lname, what.clone(), "hazmat:oneshot-differs", vcommon::hex(exp32), format!("{:?}", other.map(|c| vcommon::hex(&c))))),
    }
    let gotx = vcommon::catch(|| {
        let mut rd = mode.with_hazmat(|m| hazmat::merge_subtrees_root_xof(lcv, rcv, m));
        let mut out = vec![];
        for (p, n) in XOF_POS {
            rd.set_position(p);
            let mut b = vec![0u8; n];
            rd.fill(&mut b);
            out.extend_from_slice(&b);
        }
        out
    });
    let mut expx = vec![];
    for (p, n) in XOF_POS {
        expx.extend_from_slice(&node.root_bytes(p, n));
    }
    rep.inc("evaluations");
    match gotx {
        Ok(x) if x == expx => {}
        other => rep.violation("hazmat:merge_subtrees_root_xof:mismatch", format!("{} root xof of {} bytes at {}", mode.name(), len, lname),
            rj(mode, lname, what, "hazmat:merge_subtrees_root_xof:mismatch", vcommon::hex(&expx[..32]), format!("{:?}", other.map(|c| vcommon::hex(&c[..32.min(c.len())]))))),
    }
}

/// fixed power-of-two groupings, as upstream's test does for default mode only
fn grouped(mode: &ModeSpec, lname: &str, data: &[u8], len: usize, group_chunks: usize, oracle: &mut b3spec::StreamOracle, rep: &mut Report) {
    let glen = group_chunks * 1024;
    if len <= glen {
        return;
    }
    for recycle in [false, true] {
    let r = vcommon::catch(|| {
        let mut cvs: Vec<[u8; 32]> = vec![];
        if recycle {
            // one hasher reused for every group through reset(), last group first (so that a non-zero
            // offset is followed by smaller ones and finally by 0): a subtree's chaining value must not
            // depend on what the hasher did before the reset
            let ngroups = (len + glen - 1) / glen;
            let mut h = mode.hasher();
            cvs = vec![[0u8; 32]; ngroups];
            for g in (0..ngroups).rev() {
                let off = g * glen;
                let take = glen.min(len - off);
                h.reset();
                h.set_input_offset(off as u64);
                let cut = take / 3;
                h.update(&data[off..off + cut]);
                h.update(&data[off + cut..off + take]);
                cvs[g] = h.finalize_non_root();
            }
        } else {
        let mut off = 0;
        while off < len {
            let take = glen.min(len - off);
            let mut h = mode.hasher();
            h.set_input_offset(off as u64);
            h.update(&data[off..off + take]);
            cvs.push(h.finalize_non_root());
            off += take;
        }
        }
        while cvs.len() > 2 {
            let n = cvs.len();
            let mut next = vec![];
            for i in 0..n / 2 {
                next.push(mode.with_hazmat(|m| hazmat::merge_subtrees_non_root(&cvs[2 * i], &cvs[2 * i + 1], m)));
            }
            if n % 2 == 1 {
                next.push(cvs[n - 1]);
            }
            cvs = next;
        }
        (cvs[0], cvs[1])
    });
    rep.inc("evaluations");
    match r {
        Ok((l, rr)) => root_checks(mode, lname, data, len, &l, &rr, oracle, rep, json!({"kind": "grouped", "input_len": len, "group_chunks": group_chunks, "recycled_hasher": recycle})),
        Err(m) => rep.violation("hazmat:grouped:panic", format!("grouped hashing of {} bytes in {}-chunk groups (one hasher recycled through reset: {}) panics: {}", len, group_chunks, recycle, m),
            rj(mode, lname, json!({"kind": "grouped", "input_len": len, "group_chunks": group_chunks, "recycled_hasher": recycle}), "hazmat:grouped:panic", "no panic".into(), m)),
    }
    }
}

fn cell(mode: &ModeSpec, lname: &str, level: P, thorough: bool, rep: &mut Report) {
    subject::force(Some(level));
    let mut seen = HashSet::new();
    let max_chunks = if thorough { 72 } else { 40 };
    let big = 130 * 1024;
    let data = vcommon::stream_a(big);
    let mut oracle = b3spec::StreamOracle::new(mode.spec(), data.clone());
    // 1. every node
    for m in 1..=max_chunks {
        for r in [0usize, 1, 63, 64, 1023] {
            let len = m * 1024 + r;
            if len <= 1024 {
                continue;
            }
            every_node(mode, lname, &data, len, 0, &mut oracle, rep, &mut seen);
        }
    }
    // 2. every decomposition
    let dmax = if thorough { 20 } else { 16 };
    for m in 2..=dmax {
        for r in [0usize, 1, 1023] {
            let len = m * 1024 + r - if r == 0 { 0 } else { 1024 };
            if len <= 1024 {
                continue;
            }
            let mut bad = false;
            let l = b3spec::left_len(len as u64) as usize;
            let (dl, lcv) = decompositions(mode, lname, &data, 0, l, &mut oracle, rep, &mut bad);
            let (dr, rcv) = decompositions(mode, lname, &data, l, len, &mut oracle, rep, &mut bad);
            rep.add("decompositions", dl * dr);
            if !bad {
                root_checks(mode, lname, &data, len, &lcv, &rcv, &mut oracle, rep, json!({"kind": "decomposition-root", "input_len": len}));
            }
        }
    }
    // fixed groupings up to 128 chunks
    for len in [128 * 1024usize, 100 * 1024 + 5, 65 * 1024 + 1, 33 * 1024, 2049, 8 * 1024 + 1023] {
        for g in [1usize, 2, 4, 8, 16, 32, 64] {
            grouped(mode, lname, &data, len, g, &mut oracle, rep);
        }
    }
    // 3. high offsets: the CV depends only on bytes, offset and key
    let counters: Vec<u64> = {
        let mut v = vec![];
        for c in [(1u64 << 32) - 64, 1u64 << 32, (1u64 << 32) + 64, 1u64 << 33, 1u64 << 53, (1u64 << 54) - 64, (1u64 << 32) - 16, (1u64 << 32) - 1, (1u64 << 54) - 1, (1u64 << 32) + 1, 3u64 << 31] {
            v.push(c);
        }
        v
    };
    for &c0 in &counters {
        let maxc = 1u64 << c0.trailing_zeros().min(6);
        for k in 1..=maxc as usize {
            for r in [0usize, 1, 1023] {
                if r != 0 && k == 0 {
                    continue;
                }
                let len = if r == 0 { k * 1024 } else { (k - 1) * 1024 + r };
                if len == 0 || len as u64 > maxc * 1024 {
                    continue;
                }
                // the whole input may not exceed 2^64-1 bytes
                if (c0 as u128) * 1024 + len as u128 > u64::MAX as u128 {
                    continue;
                }
                let mut o2 = b3spec::StreamOracle::new(mode.spec(), data[..len].to_vec());
                let exp = o2.node_range(0, len, c0).chaining_value();
                for plan in [vec![len], split_plans(len).pop().unwrap()] {
                    rep.inc("evaluations");
                    rep.inc("spec_comparisons");
                    let d = format!("high|{}|{}|{}|{}|{}", lname, mode.name(), c0, len, plan.len());
                    if seen.insert(vcommon::fingerprint(d.as_bytes())) {
                        rep.inc("distinct_nontrivial");
                    }
                    let case = json!({"kind": "high-offset", "chunk_counter": c0.to_string(), "len": len, "plan": plan});
                    match subtree_cv(mode, c0 * 1024, &data[..len], &plan) {
                        Ok(cv) if cv == exp => {}
                        Ok(cv) => rep.violation("hazmat:high-offset:mismatch", format!("{} {} bytes at chunk counter {} ({})", mode.name(), len, c0, lname),
                            rj(mode, lname, case, "hazmat:high-offset:mismatch", vcommon::hex(&exp), vcommon::hex(&cv))),
                        Err(m) => rep.violation("hazmat:high-offset:panic", format!("{} {} bytes at chunk counter {} ({}): {}", mode.name(), len, c0, lname, m),
                            rj(mode, lname, case, "hazmat:high-offset:panic", "no panic".into(), m)),
                    }
                }
            }
        }
    }
    // hash_derive_key_context and new_from_context_key agree with the spec's context key
    if let ModeSpec::Derive(c) | ModeSpec::DeriveCk(c) = mode {
        rep.inc("evaluations");
        let exp = b3spec::Mode::context_key(c.as_bytes());
        match vcommon::catch(|| hazmat::hash_derive_key_context(c)) {
            Ok(k) if k == exp => {}
            other => rep.violation("hazmat:hash_derive_key_context:mismatch", format!("context key for {:?}", c),
                rj(mode, lname, json!({"kind": "context-key"}), "hazmat:hash_derive_key_context:mismatch", vcommon::hex(&exp), format!("{:?}", other.map(|k| vcommon::hex(&k))))),
        }
    }
    subject::force(None);
}

/// 4. the two helpers against their arithmetic definitions.
fn helpers(thorough: bool, rep: &mut Report) {
    let lim: u64 = if thorough { 1 << 26 } else { 1 << 24 };
    let mut ns: Vec<u64> = vec![];
    let mut push_around = |v: &mut Vec<u64>, c: u128, lo: u64, hi: u128| {
        let from = c.saturating_sub(4096);
        let to = c + 4096;
        let mut x = from;
        while x <= to {
            if x > lo as u128 && x <= hi {
                v.push(x as u64);
            }
            x += 1;
        }
    };
    for j in 10..=64u32 {
        push_around(&mut ns, 1u128 << j, 1024, u64::MAX as u128);
    }
    let mut check_left = |n: u64, rep: &mut Report| {
        rep.inc("evaluations");
        rep.inc("helper_left_subtree_len");
        let exp = b3spec::largest_pow2_below(n);
        match vcommon::catch(|| hazmat::left_subtree_len(n)) {
            Ok(v) if v == exp => {}
            other => {
                let key = format!("left_subtree_len:n={}", n);
                rep.violation(&key, format!("left_subtree_len({}) should be {} (largest power of two below n), got {:?}", n, exp, other),
                    json!({"property": "C09", "engine": "core/hazmat", "case": {"kind": "left_subtree_len", "n": n.to_string()},
                           "check": key, "expected": exp.to_string(), "observed": format!("{:?}", other)}));
            }
        }
    };
    for n in 1025..=lim {
        check_left(n, rep);
    }
    for &n in &ns {
        check_left(n, rep);
    }
    rep.add("distinct_nontrivial", (lim - 1024) + ns.len() as u64);
    // max_subtree_len
    let mut cs: Vec<u64> = vec![];
    for j in 0..=54u32 {
        push_around(&mut cs, 1u128 << j, 0, (1u128 << 54) - 1);
    }
    let mut check_max = |c: u64, rep: &mut Report| {
        rep.inc("evaluations");
        rep.inc("helper_max_subtree_len");
        let o = c * 1024;
        let exp = b3spec::max_subtree_len(o);
        match vcommon::catch(|| hazmat::max_subtree_len(o)) {
            Ok(v) if v == exp => {}
            other => {
                let key = format!("max_subtree_len:offset={}", o);
                rep.violation(&key, format!("max_subtree_len({}) should be {:?}, got {:?}", o, exp, other),
                    json!({"property": "C09", "engine": "core/hazmat", "case": {"kind": "max_subtree_len", "offset": o.to_string()},
                           "check": key, "expected": format!("{:?}", exp), "observed": format!("{:?}", other)}));
            }
        }
    };
    for c in 0..=lim {
        check_max(c, rep);
    }
    for &c in &cs {
        check_max(c, rep);
    }
    rep.add("distinct_nontrivial", lim + cs.len() as u64);
}

pub fn run(args: &Args, rep: &mut Report) {
    let t = args.thorough();
    let mut work: Vec<(Option<ModeSpec>, (String, P))> = vec![];
    let levels = subject::levels();
    work.push((None, levels[0].clone()));
    for m in modes() {
        for l in &levels {
            work.push((Some(m.clone()), l.clone()));
        }
    }
    let r = vcommon::par_run(args.jobs, work, rep, |(m, (lname, level)), local| match m {
        Some(m) => cell(m, lname, *level, t, local),
        None => helpers(t, local),
    });
    rep.merge(r);
    rep.configs.push(subject::config_json());
    rep.rule = format!("(1) every node of the tree of every input of 1..={} chunks (+ partial last chunk in 0,1,63,64,1023), hashed with set_input_offset + 6 update splits + finalize_non_root, vs the spec CV; (2) every recursive decomposition of inputs up to {} chunks, merged with merge_subtrees_non_root / _root / _root_xof; fixed 1..64-chunk groupings up to 128 chunks, each also with one hasher recycled through reset() for all groups (last group first); (3) subtrees of 1..64 chunks at chunk counters around 2^32, 2^33, 2^53, 2^54-1; (4) left_subtree_len on every n in (1024, 2^{}] and +-4096 around every power of two up to 2^64-1, max_subtree_len on every chunk index up to 2^{} and around powers of two up to 2^54-1; x 4 modes x every SIMD level; non-trivial = distinct (level, mode, node/offset, split plan) or helper argument",
        if t { 72 } else { 40 }, if t { 20 } else { 16 }, if t { 26 } else { 24 }, if t { 26 } else { 24 });
    rep.sample(json!({"kind": "node", "mode": {"kind": "keyed"}, "input_len": 5 * 1024 + 63, "lo": 4096, "hi": 5183, "plan": [1, 63, 64, 65, 894]}));
    rep.sample(json!({"kind": "high-offset", "chunk_counter": ((1u64 << 32) - 64).to_string(), "len": 65536, "plan": [65536]}));
    rep.sample(json!({"kind": "left_subtree_len", "n": u64::MAX.to_string()}));
    rep.assumptions.push("content restricted to stream A".into());
    rep.assumptions.push("full decomposition enumeration only up to the stated chunk count; beyond it compositionality is argued from the per-node check".into());
}

pub fn replay(v: &Value) -> bool {
    let case = &v["case"];
    let kind = case["kind"].as_str().unwrap_or("");
    if kind == "left_subtree_len" {
        let n: u64 = case["n"].as_str().unwrap().parse().unwrap();
        let exp = b3spec::largest_pow2_below(n);
        let got = vcommon::catch(|| hazmat::left_subtree_len(n));
        println!("left_subtree_len({}) expected {} observed {:?}", n, exp, got);
        return got != Ok(exp);
    }
    if kind == "max_subtree_len" {
        let o: u64 = case["offset"].as_str().unwrap().parse().unwrap();
        let exp = b3spec::max_subtree_len(o);
        let got = vcommon::catch(|| hazmat::max_subtree_len(o));
        println!("max_subtree_len({}) expected {:?} observed {:?}", o, exp, got);
        return got != Ok(exp);
    }
    let mode = ModeSpec::from_json(&v["mode"]);
    let level = v["config"]["level"].as_str().unwrap_or("");
    let lv = subject::levels().into_iter().find(|l| l.0 == level).expect("level not available");
    let mut rep = Report::new(
        &Args { prop: "C09".into(), tier: "quick".into(), seed: 1, report: String::new(), replay: None, jobs: 1, extra: Default::default() },
        "replay",
        "exploration",
    );
    // re-run the whole (mode, level) cell at the quick bound and see whether the same key recurs:
    // cells are small (well under a second) and deterministic
    cell(&mode, level, lv.1, false, &mut rep);
    let want = v["check"].as_str().unwrap_or("");
    let hit = rep.violations.iter().any(|x| x.key == want) || (!rep.violations.is_empty() && want.is_empty());
    for x in rep.violations.iter().take(3) {
        println!("violation {}: {}", x.key, x.summary);
    }
    hit
}
