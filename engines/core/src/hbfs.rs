//! Explicit-state breadth-first exploration of the real `blake3::Hasher` (C02, C10, and the
//! lock-step lanes of C16/C17). States are real objects; two histories merge only when the
//! complete live state (every field, via the H4 hook) is byte-identical.
use crate::subject::{self, ModeSpec, P};
use std::collections::{HashMap, HashSet, VecDeque};
use vcommon::serde_json::{json, Value};
use vcommon::{Args, Report};

#[derive(Clone, Copy, Debug, PartialEq, Eq)]
pub enum Op {
    Update(usize),
    Reset,
    SetOffset(u64),
}

impl Op {
    fn json(&self) -> Value {
        match self {
            Op::Update(k) => json!(["update", k]),
            Op::Reset => json!(["reset"]),
            Op::SetOffset(o) => json!(["set_input_offset", o]),
        }
    }
    fn from_json(v: &Value) -> Option<Op> {
        match v[0].as_str()? {
            "update" => Some(Op::Update(v[1].as_u64()? as usize)),
            "reset" => Some(Op::Reset),
            "set_input_offset" => Some(Op::SetOffset(v[1].as_u64()?)),
            _ => None,
        }
    }
}

#[derive(Clone, Debug)]
pub struct Cfg {
    pub prop: String,
    pub name: String,
    /// default moves (no deviation cost)
    pub moves: Vec<usize>,
    /// deviation moves (cost 1 each)
    pub deviations: Vec<usize>,
    pub max_dev: u32,
    pub max_total: usize,
    pub with_reset: bool,
    pub offsets: Vec<u64>,
    /// also drive a second lane through the RustCrypto traits (C16)
    pub traits_lane: bool,
    /// also drive a second lane with different secrets and compare Debug output (C17)
    pub secret_lane: bool,
    /// check adapters (Write::write, update_reader, update_rayon) against update on every transition
    pub adapters: bool,
    pub max_states: usize,
}

pub const FINE: [usize; 12] = [0, 1, 2, 63, 64, 65, 127, 128, 960, 1023, 1024, 1025];
pub const COARSE: [usize; 12] = [1024, 2048, 3072, 4096, 7168, 8192, 16384, 17408, 32768, 65536, 131072, 262144];
pub const COARSE_DEV: [usize; 4] = [1, 1023, 1025, 17 * 1024 + 1];

pub fn cfg_fine(prop: &str, thorough: bool) -> Cfg {
    Cfg {
        prop: prop.into(),
        name: "fine".into(),
        moves: FINE.to_vec(),
        deviations: vec![],
        max_dev: 0,
        max_total: if thorough { 20 * 1024 } else { 8 * 1024 },
        with_reset: false,
        offsets: vec![],
        traits_lane: false,
        secret_lane: false,
        adapters: true,
        max_states: 4_000_000,
    }
}

pub fn cfg_coarse(prop: &str, thorough: bool) -> Cfg {
    Cfg {
        prop: prop.into(),
        name: "coarse".into(),
        moves: COARSE.to_vec(),
        deviations: COARSE_DEV.to_vec(),
        max_dev: if thorough { 3 } else { 2 },
        max_total: if thorough { 1100 * 1024 } else { 300 * 1024 },
        with_reset: false,
        offsets: vec![],
        traits_lane: false,
        secret_lane: false,
        adapters: true,
        max_states: 4_000_000,
    }
}

struct St {
    h: blake3::Hasher,
    /// second lane (traits-driven or other-secret), if configured
    h2: Option<blake3::Hasher>,
    c: usize,
    dev: u32,
    offset: u64,
    depth: u32,
    updates: u32,
    node: usize,
}

struct Ctx<'a> {
    cfg: &'a Cfg,
    mode: &'a ModeSpec,
    mode2: ModeSpec,
    lname: &'a str,
    stream: &'a str,
    data: &'a [u8],
    data2: Vec<u8>,
    oracle: b3spec::StreamOracle,
    fresh_bytes: Vec<u8>,
    arena: Vec<(usize, Op)>,
    observations: HashSet<u128>,
}

impl<'a> Ctx<'a> {
    fn path(&self, mut node: usize) -> Vec<Op> {
        let mut v = vec![];
        while node != 0 {
            let (p, op) = self.arena[node];
            v.push(op);
            node = p;
        }
        v.reverse();
        v
    }
    fn replay_json(&self, node: usize, extra: Option<Op>, check: &str, expected: String, observed: String) -> Value {
        let mut ops: Vec<Value> = self.path(node).iter().map(|o| o.json()).collect();
        if let Some(o) = extra {
            ops.push(o.json());
        }
        json!({"property": self.cfg.prop, "engine": "core/hasher_bfs", "subject": "Hasher", "alphabet": self.cfg.name,
               "config": {"flavour": subject::flavour(), "features": subject::features(), "level": self.lname},
               "mode": self.mode.json(), "stream": self.stream, "seed": subject::seed(), "ops": ops,
               "check": check, "expected": expected, "observed": observed,
               "lanes": {"traits": self.cfg.traits_lane, "secret": self.cfg.secret_lane}})
    }
}

fn mode2_for(mode: &ModeSpec) -> ModeSpec {
    match mode {
        ModeSpec::Hash => ModeSpec::Hash,
        ModeSpec::Keyed(k) => {
            let mut k2 = *k;
            for b in k2.iter_mut() {
                *b = b.wrapping_mul(31).wrapping_add(0x5b) ^ 0xa7;
            }
            ModeSpec::Keyed(k2)
        }
        ModeSpec::Derive(c) => ModeSpec::Derive(format!("{} / other secret", c)),
        ModeSpec::DeriveCk(c) => ModeSpec::DeriveCk(format!("{} / other secret", c)),
    }
}

/// What an observer can see of a state without changing it.
struct Obs {
    count: u64,
    root32: Option<[u8; 32]>,
    xof: Option<Vec<u8>>,
    non_root: Option<[u8; 32]>,
}

pub const XOF_PROBES: [(u64, usize); 3] = [(0, 131), (1000, 70), (64 * (1u64 << 32) - 3, 70)];

fn observe(h: &blake3::Hasher, c: usize, offset: u64) -> Result<Obs, String> {
    vcommon::catch(|| {
        use blake3::hazmat::HasherExt;
        let count = h.count();
        let (root32, xof) = if offset == 0 {
            let r = *h.finalize().as_bytes();
            let mut rd = h.finalize_xof();
            let mut out = vec![];
            for (p, n) in XOF_PROBES {
                rd.set_position(p);
                let mut b = vec![0u8; n];
                rd.fill(&mut b);
                out.extend_from_slice(&b);
            }
            (Some(r), Some(out))
        } else {
            (None, None)
        };
        let non_root = if c > 0 { Some(h.finalize_non_root()) } else { None };
        Obs { count, root32, xof, non_root }
    })
}

/// All invariants of one state. Returns the first violation as (key, expected, observed).
fn check_state(cx: &mut Ctx, st: &St, rep: &mut Report) -> Option<(String, String, String)> {
    let before = subject::hasher_bytes(&st.h);
    let o1 = match observe(&st.h, st.c, st.offset) {
        Ok(o) => o,
        Err(m) => return Some(("Hasher::query:panic".into(), "no panic".into(), format!("panic: {}", m))),
    };
    rep.inc("queries");
    if o1.count != st.c as u64 {
        return Some(("Hasher::count:wrong".into(), format!("count()=={}", st.c), format!("count()=={}", o1.count)));
    }
    let first_chunk = st.offset / 1024;
    let node = cx.oracle.node_range(0, st.c, first_chunk);
    rep.inc("spec_comparisons");
    if let Some(r) = o1.root32 {
        let exp = &node.root_block(0)[..32];
        if r != exp {
            return Some(("Hasher::finalize:mismatch".into(), vcommon::hex(exp), vcommon::hex(&r)));
        }
        cx.observations.insert(vcommon::fingerprint(&r));
        let mut expx = vec![];
        for (p, n) in XOF_PROBES {
            expx.extend_from_slice(&node.root_bytes(p, n));
        }
        if o1.xof.as_ref().unwrap() != &expx {
            return Some(("Hasher::finalize_xof:mismatch".into(), vcommon::hex(&expx), vcommon::hex(o1.xof.as_ref().unwrap())));
        }
    }
    if let Some(nr) = o1.non_root {
        let exp = node.chaining_value();
        if nr != exp {
            return Some(("Hasher::finalize_non_root:mismatch".into(), vcommon::hex(&exp), vcommon::hex(&nr)));
        }
        cx.observations.insert(vcommon::fingerprint(&nr));
    }
    // purity: queries changed nothing, and repeat identically
    let after = subject::hasher_bytes(&st.h);
    if after != before {
        return Some(("Hasher::query:mutates-state".into(), "state unchanged by finalize/finalize_xof/count".into(), "state bytes differ".into()));
    }
    let o2 = match observe(&st.h, st.c, st.offset) {
        Ok(o) => o,
        Err(m) => return Some(("Hasher::query:panic".into(), "no panic".into(), format!("panic on repeat: {}", m))),
    };
    if o2.root32 != o1.root32 || o2.xof != o1.xof || o2.non_root != o1.non_root || o2.count != o1.count {
        return Some(("Hasher::query:not-idempotent".into(), "same results on repeat".into(), "results differ on repeat".into()));
    }
    // a clone is the same state
    let cl = st.h.clone();
    if subject::hasher_bytes(&cl) != before {
        return Some(("Hasher::clone:differs".into(), "clone has identical state".into(), "clone state differs".into()));
    }
    // clone_from into a hasher of another key / mode with a history of its own gives the same state
    // (derive(Clone) provides it through clone(); a hand-written one must copy every field)
    {
        let other = mode2_for(cx.mode);
        let r = vcommon::catch(|| {
            let mut dst = if matches!(cx.mode, ModeSpec::Hash) { ModeSpec::Keyed(*vcommon::TEST_KEY).hasher() } else { other.hasher() };
            dst.update(&cx.data[..(st.c % 3000).min(cx.data.len())]);
            dst.clone_from(&st.h);
            subject::hasher_bytes(&dst)
        });
        match r {
            Ok(b) if b == before => {}
            Ok(_) => return Some(("Hasher::clone_from:differs".into(), "clone_from gives the source's state".into(), "state differs".into())),
            Err(m) => return Some(("Hasher::clone_from:panic".into(), "no panic".into(), m)),
        }
    }
    // structural invariants the algorithm relies on
    let s = st.h.verif_state();
    let cs = &s.chunk_state;
    // (that the block buffer is zero beyond buf_len is how upstream pads the last block, not something the
    // property states: a version that pads at output time is just as right - see DESIGN.md section 9)
    if s.cv_stack_len > 55 || cs.buf_len > 64 || cs.blocks_compressed > 16 {
        return Some(("Hasher::invariant:field-out-of-range".into(), "cv_stack<=55, buf_len<=64, blocks<=16".into(),
            format!("{} {} {}", s.cv_stack_len, cs.buf_len, cs.blocks_compressed)));
    }
    if s.initial_chunk_counter != first_chunk {
        return Some((
            "Hasher::invariant:initial-chunk-counter".into(),
            format!("initial_chunk_counter=={}", first_chunk),
            format!("{}", s.initial_chunk_counter),
        ));
    }
    // lanes
    if let Some(h2) = &st.h2 {
        if cx.cfg.traits_lane {
            if subject::hasher_bytes(h2) != before {
                return Some(("traits:state-differs-from-inherent".into(), "trait-driven hasher has identical state".into(), "state differs".into()));
            }
            if let Some(v) = crate::lanes::traits_state_check(h2, &st.h, st.offset) {
                return Some(v);
            }
        }
        if cx.cfg.secret_lane {
            if let Some(v) = crate::lanes::debug_check(&st.h, h2, cx.mode, &cx.mode2) {
                return Some(v);
            }
        }
    }
    None
}

/// Re-observe a state after its clones were driven elsewhere: still the spec values for its own bytes.
fn reobserve(cx: &mut Ctx, st: &St) -> Option<(String, String, String)> {
    let o = match observe(&st.h, st.c, st.offset) {
        Ok(o) => o,
        Err(m) => return Some(("Hasher::clone:original-unusable-after-clone-activity".into(), "no panic".into(), format!("panic: {}", m))),
    };
    let node = cx.oracle.node_range(0, st.c, st.offset / 1024);
    if o.count != st.c as u64 {
        return Some(("Hasher::clone:influences-original".into(), format!("count()=={}", st.c), format!("count()=={}", o.count)));
    }
    if let Some(r) = o.root32 {
        if r[..] != node.root_block(0)[..32] {
            return Some(("Hasher::clone:influences-original".into(), vcommon::hex(&node.root_block(0)[..32]), vcommon::hex(&r)));
        }
    }
    if let Some(nr) = o.non_root {
        if nr != node.chaining_value() {
            return Some(("Hasher::clone:influences-original".into(), vcommon::hex(&node.chaining_value()), vcommon::hex(&nr)));
        }
    }
    None
}

fn apply(h: &mut blake3::Hasher, op: Op, data: &[u8], c: usize) -> Result<(), String> {
    vcommon::catch(|| {
        use blake3::hazmat::HasherExt;
        match op {
            Op::Update(k) => {
                h.update(&data[c..c + k]);
            }
            Op::Reset => {
                h.reset();
            }
            Op::SetOffset(o) => {
                h.set_input_offset(o);
            }
        }
    })
}

fn enabled_ops(cfg: &Cfg, st: &St) -> Vec<(Op, u32)> {
    let mut v = vec![];
    let room = match b3spec::max_subtree_len(st.offset) {
        Some(m) => (m as usize).min(cfg.max_total),
        None => cfg.max_total,
    };
    for &k in &cfg.moves {
        if st.c + k <= room {
            v.push((Op::Update(k), 0));
        }
    }
    if st.dev < cfg.max_dev {
        for &k in &cfg.deviations {
            if st.c + k <= room {
                v.push((Op::Update(k), 1));
            }
        }
    }
    if cfg.with_reset && (st.c > 0 || st.offset != 0) {
        v.push((Op::Reset, 0));
    }
    // set_input_offset may be called again while nothing has been absorbed: from any offset to any
    // other, back to 0 included (the last call wins)
    if st.c == 0 && !cfg.offsets.is_empty() {
        for &o in cfg.offsets.iter().chain(std::iter::once(&0u64)) {
            if o != st.offset {
                v.push((Op::SetOffset(o), 0));
            }
        }
    }
    v
}

/// Classify a post-reset state that differs from a freshly constructed hasher.
fn reset_diff_key(after: &blake3::Hasher, fresh: &blake3::Hasher) -> String {
    let a = after.verif_state();
    let f = fresh.verif_state();
    let mut a2 = a.clone();
    a2.initial_chunk_counter = f.initial_chunk_counter;
    let same_otherwise = {
        let mut x = vec![];
        let mut y = vec![];
        for w in a2.key {
            x.extend_from_slice(&w.to_le_bytes());
        }
        for w in f.key {
            y.extend_from_slice(&w.to_le_bytes());
        }
        subject::chunk_state_bytes(&a2.chunk_state, &mut x);
        subject::chunk_state_bytes(&f.chunk_state, &mut y);
        x == y && a2.cv_stack_len == f.cv_stack_len && a2.cv_stack[..] == f.cv_stack[..]
    };
    if same_otherwise && a.initial_chunk_counter != f.initial_chunk_counter {
        "Hasher::reset:input-offset-survives".into()
    } else {
        "Hasher::reset:state-differs-from-fresh".into()
    }
}

pub fn explore(cfg: &Cfg, mode: &ModeSpec, lname: &str, level: P, stream: &str, rep: &mut Report) {
    subject::force(Some(level));
    let seed = subject::seed();
    let slack = 1024;
    let data = vcommon::stream(stream, seed, cfg.max_total + slack);
    let mode2 = mode2_for(mode);
    let data2 = vcommon::stream("C", seed, cfg.max_total + slack);
    let fresh = mode.hasher();
    let mut cx = Ctx {
        cfg,
        mode,
        mode2: mode2.clone(),
        lname,
        stream,
        data: &data,
        data2,
        oracle: b3spec::StreamOracle::new(mode.spec(), data.clone()),
        fresh_bytes: subject::hasher_bytes(&fresh),
        arena: vec![(0, Op::Reset)],
        observations: HashSet::new(),
    };
    let h2 = if cfg.traits_lane {
        Some(crate::lanes::traits_new(mode))
    } else if cfg.secret_lane {
        Some(mode2.hasher())
    } else {
        None
    };
    let init = St { h: fresh.clone(), h2, c: 0, dev: 0, offset: 0, depth: 0, updates: 0, node: 0 };
    // merge key = implementation state + model state (bytes absorbed, expected offset) + deviations used:
    // two histories are only merged if the model expects the same of them
    let mut seen: HashMap<(u128, usize, u64, u32), ()> = HashMap::new();
    seen.insert((vcommon::fingerprint(&cx.fresh_bytes), 0, 0, 0), ());
    rep.inc("states");
    let mut queue = VecDeque::new();
    if let Some((key, exp, obs)) = check_state(&mut cx, &init, rep) {
        let rj = cx.replay_json(0, None, &key, exp.clone(), obs.clone());
        rep.violation(&key, format!("fresh {} hasher at {}: expected {}, observed {}", mode.name(), lname, exp, obs), rj);
    } else {
        queue.push_back(init);
    }
    let mut sampled = false;
    while let Some(st) = queue.pop_front() {
        let before = subject::hasher_bytes(&st.h);
        let ops = enabled_ops(cfg, &st);
        let mut first = true;
        for (op, cost) in ops {
            let mut succ = st.h.clone();
            rep.inc("transitions");
            rep.inc("evaluations");
            if let Err(m) = apply(&mut succ, op, cx.data, st.c) {
                let rj = cx.replay_json(st.node, Some(op), "Hasher::op:panic", "no panic".into(), format!("panic: {}", m));
                rep.violation("Hasher::op:panic", format!("{:?} after {} bytes panics at {}: {}", op, st.c, lname, m), rj);
                continue;
            }
            let (nc, noff) = match op {
                Op::Update(k) => (st.c + k, st.offset),
                Op::Reset => (0, 0),
                Op::SetOffset(o) => (0, o),
            };
            // Clone independence, both directions (second direction for the first op of every
            // state; all ops in the thorough tier): operate on the original, keep the clone.
            if first || cfg.max_total > 8 * 1024 {
                first = false;
                let keep = st.h.clone();
                let mut orig = st.h.clone();
                let _ = apply(&mut orig, op, cx.data, st.c);
                if subject::hasher_bytes(&keep) != before {
                    let rj = cx.replay_json(st.node, Some(op), "Hasher::clone:not-independent", "clone unchanged".into(), "clone changed".into());
                    rep.violation("Hasher::clone:not-independent", format!("{:?} on the original changed its clone", op), rj);
                    continue;
                }
                if subject::hasher_bytes(&orig) != subject::hasher_bytes(&succ) {
                    let rj = cx.replay_json(st.node, Some(op), "Hasher::clone:diverges", "same op gives same state".into(), "states differ".into());
                    rep.violation("Hasher::clone:diverges", format!("{:?} on clone and on original give different states", op), rj);
                    continue;
                }
                rep.inc("clone_checks");
            }
            // adapters must be the same transition
            if cfg.adapters {
                if let Op::Update(k) = op {
                    if let Some((key, exp, obs)) = crate::lanes::adapter_checks(&st.h, &succ, &cx.data[st.c..st.c + k], rep) {
                        let rj = cx.replay_json(st.node, Some(op), &key, exp.clone(), obs.clone());
                        rep.violation(&key, format!("adapter differs from update({}) after {} bytes at {}: {}", k, st.c, lname, obs), rj);
                        continue;
                    }
                }
            }
            if op == Op::Reset {
                let fresh_now = mode.hasher();
                if subject::hasher_bytes(&succ) != subject::hasher_bytes(&fresh_now) {
                    let key = reset_diff_key(&succ, &fresh_now);
                    let rj = cx.replay_json(st.node, Some(op), &key, "state identical to a newly constructed hasher".into(), "state differs".into());
                    rep.violation(&key, format!("reset after {} bytes at offset {} ({}) leaves a state different from a new hasher", st.c, st.offset, lname), rj);
                    continue;
                }
                rep.inc("reset_checks");
                // ... and behaves like one (whatever the state copy may not show - a field added to the
                // struct, say): the reset hasher is driven through a few updates, among them longer ones
                // than any earlier offset would have allowed, and compared with the spec
                let probe_lens: [&[usize]; 3] = [&[1025], &[1, 2047, 3000], &[7 * 1024 + 5]];
                let mut bad = None;
                for pl in probe_lens {
                    let total: usize = pl.iter().sum();
                    if total > cx.data.len() {
                        continue;
                    }
                    let r = vcommon::catch(|| {
                        let mut p = succ.clone();
                        let mut at = 0;
                        for &k in pl {
                            p.update(&cx.data[at..at + k]);
                            at += k;
                        }
                        (p.count(), *p.finalize().as_bytes())
                    });
                    rep.inc("post_reset_probes");
                    let exp = cx.oracle.node_range(0, total, 0);
                    let ok = matches!(&r, Ok((c, h)) if *c == total as u64 && h[..] == exp.root_block(0)[..32]);
                    if !ok {
                        bad = Some(format!("updates {:?} after the reset: {:?}", pl, r.map(|x| (x.0, vcommon::hex(&x.1)))));
                        break;
                    }
                }
                if let Some(b) = bad {
                    let key = "Hasher::reset:behaves-differently-from-fresh";
                    let rj = cx.replay_json(st.node, Some(op), key, "a reset hasher hashes like a new one".into(), b.clone());
                    rep.violation(key, format!("reset after {} bytes at offset {} ({}): {}", st.c, st.offset, lname, b), rj);
                    continue;
                }
            }
            // second lane
            let h2 = match &st.h2 {
                Some(l2) => {
                    let mut l2 = l2.clone();
                    let r = if cfg.traits_lane {
                        crate::lanes::traits_apply(&mut l2, op, cx.data, st.c, rep)
                    } else {
                        apply(&mut l2, op, &cx.data2, st.c)
                    };
                    if let Err(m) = r {
                        let rj = cx.replay_json(st.node, Some(op), "lane:panic", "no panic".into(), format!("panic: {}", m));
                        rep.violation("lane:panic", format!("second lane panics on {:?}: {}", op, m), rj);
                        continue;
                    }
                    Some(l2)
                }
                None => None,
            };
            let bytes = subject::hasher_bytes(&succ);
            let key = (vcommon::fingerprint(&bytes), nc, noff, st.dev + cost);
            if seen.contains_key(&key) {
                rep.inc("merges");
                continue;
            }
            if seen.len() >= cfg.max_states {
                rep.cap("max_states");
                continue;
            }
            seen.insert(key, ());
            rep.inc("states");
            cx.arena.push((st.node, op));
            let node = cx.arena.len() - 1;
            let nst = St {
                h: succ,
                h2,
                c: nc,
                dev: st.dev + cost,
                offset: noff,
                depth: st.depth + 1,
                updates: st.updates + matches!(op, Op::Update(_)) as u32,
                node,
            };
            rep.max("max_path_len", nst.depth as u64);
            if nst.updates >= 2 {
                rep.inc("distinct_nontrivial");
            }
            if let Some((key, exp, obs)) = check_state(&mut cx, &nst, rep) {
                let rj = cx.replay_json(node, None, &key, exp.clone(), obs.clone());
                rep.violation(&key, format!("{} {} at {} after {:?}: expected {}, observed {}", mode.name(), key, lname, cx.path(node), exp, obs), rj);
                continue; // do not expand a violating state
            }
            // a clone that went its own way (and was finalized) must not have influenced its original
            rep.inc("clone_reobserve_checks");
            if let Some((key, exp, obs)) = reobserve(&mut cx, &st) {
                let rj = cx.replay_json(st.node, Some(op), &key, exp.clone(), obs.clone());
                rep.violation(&key, format!("{} at {}: after {:?} (and a finalize) on a clone of the state reached by {:?}, the original gives {} instead of {}", mode.name(), lname, op, cx.path(st.node), obs, exp), rj);
            }
            if !sampled && nst.depth == 4 {
                sampled = true;
                rep.sample(json!({"mode": mode.json(), "level": lname, "stream": stream, "alphabet": cfg.name,
                    "ops": cx.path(node).iter().map(|o| o.json()).collect::<Vec<_>>(),
                    "checked": "count, finalize, finalize_xof@3 positions, finalize_non_root vs spec; purity; clone; invariants"}));
            }
            queue.push_back(nst);
        }
        // ... and observationally: after its clones have been updated and finalized, the original still
        // describes exactly the bytes it absorbed (a clone and its original never influence each other)
        rep.inc("clone_reobserve_checks");
        if let Some((key, exp, obs)) = reobserve(&mut cx, &st) {
            let rj = cx.replay_json(st.node, None, &key, exp.clone(), obs.clone());
            rep.violation(&key, format!("{} at {}: after operating on clones of the state reached by {:?}, the original gives {} instead of {}", mode.name(), lname, cx.path(st.node), obs, exp), rj);
        }
        // the original is untouched by everything done to its clones
        if subject::hasher_bytes(&st.h) != before {
            let rj = cx.replay_json(st.node, None, "Hasher::clone:aliasing", "original unchanged".into(), "original changed".into());
            rep.violation("Hasher::clone:aliasing", "operating on clones changed the original".into(), rj);
        }
    }
    rep.add("distinct_observations", cx.observations.len() as u64);
    rep.add("traces_validated_against_impl", 0);
    subject::force(None);
}

pub fn bounds_json(cfgs: &[Cfg]) -> Value {
    json!(cfgs.iter().map(|c| json!({"alphabet": c.name, "moves": c.moves, "deviations": c.deviations,
        "max_deviations": c.max_dev, "max_total_bytes": c.max_total, "reset": c.with_reset, "offsets": c.offsets})).collect::<Vec<_>>())
}

pub fn run(args: &Args, rep: &mut Report, cfgs: Vec<Cfg>, modes: Vec<ModeSpec>, streams: &[&str]) {
    let levels = subject::levels();
    let mut items = vec![];
    for cfg in &cfgs {
        for m in &modes {
            for l in &levels {
                for s in streams {
                    items.push((cfg.clone(), m.clone(), l.clone(), s.to_string()));
                }
            }
        }
    }
    let r = vcommon::par_run(args.jobs, items, rep, |(cfg, m, (lname, level), s), local| {
        explore(cfg, m, lname, *level, s, local);
    });
    rep.merge(r);
    // every transition was executed on the implementation itself
    let t = rep.get("transitions");
    rep.counters.insert("traces_validated_against_impl".into(), t);
    rep.configs.push(subject::config_json());
    rep.extra.insert("bounds".into(), bounds_json(&cfgs));
    rep.assumptions.push("input content restricted to the fixed streams (A: 251-periodic paint, B/C: xorshift64*)".into());
    rep.assumptions.push("state merging keyed on a 128-bit SipHash of the complete field-by-field state plus (bytes absorbed, deviations used)".into());
}

pub fn replay(v: &Value) -> bool {
    if v["huge"].is_object() {
        let args = Args { prop: "C02".into(), tier: "thorough".into(), seed: subject::seed(), report: String::new(), replay: None, jobs: 1, extra: Default::default() };
        let mut rep = Report::new(&args, "replay", "model_checking");
        crate::c01::huge_hasher(&mut rep, true);
        for x in rep.violations.iter().take(3) {
            println!("violation {}: {}", x.key, x.summary);
        }
        return !rep.violations.is_empty();
    }
    let mode = ModeSpec::from_json(&v["mode"]);
    let stream = v["stream"].as_str().unwrap_or("A").to_string();
    let level = v["config"]["level"].as_str().unwrap_or("");
    let lv = subject::levels().into_iter().find(|l| l.0 == level).expect("level not available");
    subject::force(Some(lv.1));
    let want = v["check"].as_str().unwrap_or("").to_string();
    let ops: Vec<Op> = v["ops"].as_array().unwrap().iter().filter_map(Op::from_json).collect();
    let total: usize = ops.iter().map(|o| if let Op::Update(k) = o { *k } else { 0 }).sum();
    let cfg = Cfg {
        prop: v["property"].as_str().unwrap_or("C02").into(),
        name: "replay".into(),
        moves: vec![],
        deviations: vec![],
        max_dev: 0,
        max_total: total + 1024,
        with_reset: true,
        offsets: vec![],
        traits_lane: v["lanes"]["traits"].as_bool().unwrap_or(false),
        secret_lane: v["lanes"]["secret"].as_bool().unwrap_or(false),
        adapters: true,
        max_states: 1,
    };
    let seed = subject::seed();
    let data = vcommon::stream(&stream, seed, cfg.max_total + 1024);
    let mode2 = mode2_for(&mode);
    let mut cx = Ctx {
        cfg: &cfg,
        mode: &mode,
        mode2: mode2.clone(),
        lname: level,
        stream: &stream,
        data: &data,
        data2: vcommon::stream("C", seed, cfg.max_total + 1024),
        oracle: b3spec::StreamOracle::new(mode.spec(), data.clone()),
        fresh_bytes: vec![],
        arena: vec![(0, Op::Reset)],
        observations: HashSet::new(),
    };
    let mut rep = Report::new(
        &Args { prop: "replay".into(), tier: "quick".into(), seed, report: String::new(), replay: None, jobs: 1, extra: Default::default() },
        "replay",
        "model_checking",
    );
    let h2 = if cfg.traits_lane { Some(crate::lanes::traits_new(&mode)) } else if cfg.secret_lane { Some(mode2.hasher()) } else { None };
    let mut st = St { h: mode.hasher(), h2, c: 0, dev: 0, offset: 0, depth: 0, updates: 0, node: 0 };
    let mut found: Vec<(String, String, String)> = vec![];
    if let Some(v) = check_state(&mut cx, &st, &mut rep) {
        found.push(v);
    }
    for op in ops {
        if !found.is_empty() {
            break;
        }
        let prev = st.h.clone();
        if let Err(m) = apply(&mut st.h, op, cx.data, st.c) {
            found.push(("Hasher::op:panic".into(), "no panic".into(), format!("panic: {}", m)));
            break;
        }
        if let Op::Update(k) = op {
            if let Some(v) = crate::lanes::adapter_checks(&prev, &st.h, &cx.data[st.c..st.c + k], &mut rep) {
                found.push(v);
            }
        }
        if op == Op::Reset {
            let fresh_now = mode.hasher();
            if subject::hasher_bytes(&st.h) != subject::hasher_bytes(&fresh_now) {
                found.push((reset_diff_key(&st.h, &fresh_now), "state identical to a newly constructed hasher".into(), "state differs".into()));
            }
        }
        if let Some(l2) = st.h2.as_mut() {
            let r = if cfg.traits_lane { crate::lanes::traits_apply(l2, op, cx.data, st.c, &mut rep) } else { apply(l2, op, &cx.data2, st.c) };
            if let Err(m) = r {
                found.push(("lane:panic".into(), "no panic".into(), format!("panic: {}", m)));
            }
        }
        match op {
            Op::Update(k) => st.c += k,
            Op::Reset => {
                st.c = 0;
                st.offset = 0;
            }
            Op::SetOffset(o) => st.offset = o,
        }
        if !found.is_empty() {
            break;
        }
        if let Some(v) = check_state(&mut cx, &st, &mut rep) {
            found.push(v);
            break;
        }
    }
    subject::force(None);
    for (k, e, o) in &found {
        println!("violation {}: expected {}, observed {}", k, e, o);
    }
    if found.is_empty() {
        println!("no violation along this history (looked for {})", want);
    }
    !found.is_empty()
}
