//! Extra lanes and per-transition adapter checks used by the hasher BFS:
//! Write / update_reader / update_rayon must be the same transition as update (C02, C11);
//! a hasher driven only through the RustCrypto traits must stay byte-identical (C16);
//! Debug output must not depend on secrets (C17).
use crate::hbfs::Op;
use crate::subject::{self, ModeSpec};
use vcommon::Report;

type V = Option<(String, String, String)>;

/// When set (C08 runs), update_rayon must leave exactly the state update leaves; otherwise (C02)
/// adapters are judged on what is observable: count, hash, extended output, and the same after
/// further input.
pub static EXACT_RAYON: std::sync::atomic::AtomicBool = std::sync::atomic::AtomicBool::new(false);

fn same_observable(a: &blake3::Hasher, b: &blake3::Hasher, more: &[u8]) -> bool {
    vcommon::catch(|| {
        let (mut x, mut y) = ([0u8; 131], [0u8; 131]);
        a.finalize_xof().fill(&mut x);
        b.finalize_xof().fill(&mut y);
        let (mut a2, mut b2) = (a.clone(), b.clone());
        a2.update(more);
        b2.update(more);
        a.count() == b.count() && a.finalize() == b.finalize() && x == y && a2.finalize() == b2.finalize() && a2.count() == b2.count()
    }) == Ok(true)
}

#[allow(unused_variables)]
pub fn adapter_checks(prev: &blake3::Hasher, succ: &blake3::Hasher, bytes: &[u8], rep: &mut Report) -> V {
    let want = subject::hasher_bytes(succ);
    #[cfg(feature = "std")]
    {
        use std::io::Write;
        let mut w = prev.clone();
        match vcommon::catch(|| w.write(bytes)) {
            Ok(Ok(n)) if n == bytes.len() => {}
            Ok(Ok(n)) => return Some(("Write::write:short".into(), format!("Ok({})", bytes.len()), format!("Ok({})", n))),
            Ok(Err(e)) => return Some(("Write::write:error".into(), "Ok".into(), format!("Err({})", e))),
            Err(m) => return Some(("Write::write:panic".into(), "no panic".into(), m)),
        }
        if w.flush().is_err() {
            return Some(("Write::flush:error".into(), "Ok".into(), "Err".into()));
        }
        if subject::hasher_bytes(&w) != want {
            return Some(("Write::write:state-differs-from-update".into(), "same state as update".into(), "state differs".into()));
        }
        rep.inc("adapter_write_checks");
        let mut r = prev.clone();
        match vcommon::catch(|| r.update_reader(std::io::Cursor::new(bytes)).map(|_| ())) {
            Ok(Ok(())) => {}
            Ok(Err(e)) => return Some(("update_reader:error".into(), "Ok".into(), format!("Err({})", e))),
            Err(m) => return Some(("update_reader:panic".into(), "no panic".into(), m)),
        }
        // update_reader is free to batch or split what it reads: judged on what is observable
        if !same_observable(&r, succ, &bytes[..bytes.len().min(1500)]) {
            return Some(("update_reader:result-differs-from-update".into(), "same count/hash/xof as update, also after more input".into(), "differs".into()));
        }
        rep.inc("adapter_reader_checks");
    }
    #[cfg(feature = "rayon")]
    {
        // update_rayon must be the same transition as update for every size (also the small ones,
        // which never split) and every pool size: pools of 1, 2 and 4 threads in rotation
        static POOLS: std::sync::OnceLock<Vec<rayon_core::ThreadPool>> = std::sync::OnceLock::new();
        let pools = POOLS.get_or_init(|| [1usize, 2, 4].iter().map(|n| rayon_core::ThreadPoolBuilder::new().num_threads(*n).build().expect("pool")).collect());
        let pool = &pools[(bytes.len() + prev.count() as usize) % pools.len()];
        let mut r = prev.clone();
        let forced = crate::subject::forced();
        let _in_flight = watchdog::enter("update_rayon (several harness threads call it at the same time on their own hashers, through shared pools)");
        if let Err(m) = vcommon::catch(|| {
            pool.install(|| {
                // the forced level is a thread-local of the harness: carry it onto the pool's thread
                crate::subject::force(forced);
                r.update_rayon(bytes);
                crate::subject::force(None);
            });
        }) {
            return Some(("update_rayon:panic".into(), "no panic".into(), m));
        }
        if EXACT_RAYON.load(std::sync::atomic::Ordering::SeqCst) {
            if subject::hasher_bytes(&r) != want {
                return Some(("update_rayon:state-differs-from-update".into(), "exactly the state update leaves".into(), "state differs".into()));
            }
        } else if !same_observable(&r, succ, &bytes[..bytes.len().min(1500)]) {
            return Some(("update_rayon:result-differs-from-update".into(), "same count/hash/xof as update, also after more input".into(), "differs".into()));
        }
        rep.inc("adapter_rayon_checks");
    }
    None
}

/// A call into the subject that can involve other threads (rayon) may never return if the subject
/// deadlocks. Calls register here while they are in flight; a watchdog thread turns a call that has
/// been in flight for a minute into a verdict (the engine cannot cancel the stuck threads: it writes
/// its report with that one violation, or answers the replay, and exits).
pub mod watchdog {
    use std::sync::atomic::{AtomicU64, Ordering};
    use std::sync::{Mutex, OnceLock};
    use std::time::{Duration, Instant};

    static ARGS: OnceLock<vcommon::Args> = OnceLock::new();
    static IN_FLIGHT: Mutex<Vec<(u64, Instant, &'static str)>> = Mutex::new(Vec::new());
    static NEXT: AtomicU64 = AtomicU64::new(1);
    pub const LIMIT_S: u64 = 60;

    pub fn init(args: &vcommon::Args) {
        let _ = ARGS.set(args.clone());
    }

    pub struct Guard(u64);
    impl Drop for Guard {
        fn drop(&mut self) {
            IN_FLIGHT.lock().unwrap_or_else(|e| e.into_inner()).retain(|x| x.0 != self.0);
        }
    }

    pub fn enter(what: &'static str) -> Guard {
        static STARTED: OnceLock<()> = OnceLock::new();
        STARTED.get_or_init(|| {
            std::thread::spawn(|| loop {
                std::thread::sleep(Duration::from_secs(2));
                let stuck = IN_FLIGHT.lock().unwrap_or_else(|e| e.into_inner()).iter().filter(|x| x.1.elapsed().as_secs() >= LIMIT_S).map(|x| x.2).next();
                if let Some(what) = stuck {
                    fire(what);
                }
            });
        });
        let id = NEXT.fetch_add(1, Ordering::SeqCst);
        IN_FLIGHT.lock().unwrap_or_else(|e| e.into_inner()).push((id, Instant::now(), what));
        Guard(id)
    }

    fn fire(what: &str) -> ! {
        let key = "watchdog:call-never-returns";
        let summary = format!("a call of {} has not returned for {} s: deadlock (or livelock) between independent hashers", what, LIMIT_S);
        eprintln!("VERIF-WATCHDOG {}", summary);
        if let Some(args) = ARGS.get() {
            if args.replay.is_some() {
                println!("violation {}: {}", key, summary);
                println!("REPRODUCED");
                std::process::exit(1);
            }
            let mut rep = vcommon::Report::new(args, "core/watchdog", "model_checking");
            rep.inc("evaluations");
            rep.inc("states");
            rep.inc("transitions");
            rep.violation(key, summary, vcommon::serde_json::json!({"property": args.prop, "engine": "core/watchdog", "watchdog": what, "check": key}));
            rep.cap("the exploration was abandoned when the watchdog fired");
            rep.write(&args.report);
            std::process::exit(0);
        }
        std::process::exit(4);
    }
}

/// A hasher of `mode` constructed through the traits where a trait constructor exists.
#[cfg(feature = "traits")]
pub fn traits_new(mode: &ModeSpec) -> blake3::Hasher {
    match mode {
        ModeSpec::Hash => <blake3::Hasher as digest::Digest>::new(),
        ModeSpec::Keyed(k) => <blake3::Hasher as digest::KeyInit>::new(&(*k).into()),
        _ => mode.hasher(),
    }
}

#[cfg(not(feature = "traits"))]
pub fn traits_new(mode: &ModeSpec) -> blake3::Hasher {
    mode.hasher()
}

#[cfg(feature = "traits")]
pub fn traits_apply(h: &mut blake3::Hasher, op: Op, data: &[u8], c: usize, rep: &mut Report) -> Result<(), String> {
    rep.inc("trait_transitions");
    vcommon::catch(|| {
        use blake3::hazmat::HasherExt;
        match op {
            Op::Update(k) => {
                // alternate between the trait entry points that absorb
                if (c + k) % 2 == 0 {
                    digest::Update::update(h, &data[c..c + k]);
                } else {
                    digest::Digest::update(h, &data[c..c + k]);
                }
            }
            Op::Reset => {
                if c % 2 == 0 {
                    digest::Reset::reset(h);
                } else {
                    digest::Digest::reset(h);
                }
            }
            Op::SetOffset(o) => {
                h.set_input_offset(o);
            }
        }
    })
}

#[cfg(not(feature = "traits"))]
pub fn traits_apply(_h: &mut blake3::Hasher, _op: Op, _data: &[u8], _c: usize, _rep: &mut Report) -> Result<(), String> {
    Err("traits lane requires the traits feature".into())
}

/// Everything observable through the traits equals the inherent API on `inherent` (same state).
#[cfg(feature = "traits")]
pub fn traits_state_check(h2: &blake3::Hasher, inherent: &blake3::Hasher, offset: u64) -> V {
    if offset != 0 {
        return None;
    }
    let r = vcommon::catch(|| -> V {
        let want = *inherent.finalize().as_bytes();
        let mut wantx = [0u8; 200];
        inherent.finalize_xof().fill(&mut wantx);
        let reset_state = {
            let mut x = inherent.clone();
            x.reset();
            subject::hasher_bytes(&x)
        };
        // FixedOutput
        let a = digest::FixedOutput::finalize_fixed(h2.clone());
        if a[..] != want[..] {
            return Some(("traits:FixedOutput::finalize_fixed".into(), vcommon::hex(&want), vcommon::hex(&a)));
        }
        let mut out = digest::Output::<blake3::Hasher>::default();
        digest::FixedOutput::finalize_into(h2.clone(), &mut out);
        if out[..] != want[..] {
            return Some(("traits:FixedOutput::finalize_into".into(), vcommon::hex(&want), vcommon::hex(&out)));
        }
        // Digest
        let d = digest::Digest::finalize(h2.clone());
        if d[..] != want[..] {
            return Some(("traits:Digest::finalize".into(), vcommon::hex(&want), vcommon::hex(&d)));
        }
        // FixedOutputReset
        let mut x = h2.clone();
        let b = digest::FixedOutputReset::finalize_fixed_reset(&mut x);
        if b[..] != want[..] {
            return Some(("traits:FixedOutputReset::result".into(), vcommon::hex(&want), vcommon::hex(&b)));
        }
        if subject::hasher_bytes(&x) != reset_state {
            return Some(("traits:FixedOutputReset::state-not-reset".into(), "state of a reset hasher".into(), "state differs".into()));
        }
        let mut x = h2.clone();
        let b = digest::Digest::finalize_reset(&mut x);
        if b[..] != want[..] || subject::hasher_bytes(&x) != reset_state {
            return Some(("traits:Digest::finalize_reset".into(), "result and reset state".into(), "differs".into()));
        }
        // ExtendableOutput + XofReader, read in uneven pieces
        // (piece sizes chosen so that whole-block reads start inside a block, at its end and at its start)
        const PLANS: [&[usize]; 7] = [&[67, 133], &[10, 64, 126], &[1, 128, 64, 7], &[64, 64, 72], &[63, 1, 64, 72], &[200], &[0, 32, 32, 64, 8, 64]];
        for plan in PLANS {
            let mut rd = digest::ExtendableOutput::finalize_xof(h2.clone());
            let mut got = [0u8; 200];
            let mut at = 0;
            for &k in plan {
                digest::XofReader::read(&mut rd, &mut got[at..at + k]);
                at += k;
            }
            debug_assert_eq!(at, 200);
            if got != wantx {
                return Some(("traits:ExtendableOutput::finalize_xof".into(), vcommon::hex(&wantx), format!("{} (XofReader::read in pieces {:?})", vcommon::hex(&got), plan)));
            }
        }
        let mut x = h2.clone();
        let mut rd = digest::ExtendableOutputReset::finalize_xof_reset(&mut x);
        let mut got = [0u8; 200];
        digest::XofReader::read(&mut rd, &mut got);
        if got != wantx {
            return Some(("traits:ExtendableOutputReset::result".into(), vcommon::hex(&wantx), vcommon::hex(&got)));
        }
        if subject::hasher_bytes(&x) != reset_state {
            return Some(("traits:ExtendableOutputReset::state-not-reset".into(), "state of a reset hasher".into(), "state differs".into()));
        }
        let mut boxed = vec![0u8; 200];
        digest::ExtendableOutput::finalize_xof_into(h2.clone(), &mut boxed);
        if boxed[..] != wantx[..] {
            return Some(("traits:ExtendableOutput::finalize_xof_into".into(), vcommon::hex(&wantx), vcommon::hex(&boxed)));
        }
        // Mac (only meaningful for any state: finalize -> CtOutput; verify accepts exactly the tag)
        let tag = digest::Mac::finalize(h2.clone()).into_bytes();
        if tag[..] != want[..] {
            return Some(("traits:Mac::finalize".into(), vcommon::hex(&want), vcommon::hex(&tag)));
        }
        if digest::Mac::verify(h2.clone(), &tag).is_err() {
            return Some(("traits:Mac::verify-rejects-own-tag".into(), "Ok".into(), "Err".into()));
        }
        let mut bad = tag.clone();
        bad[31] ^= 0x80;
        if digest::Mac::verify(h2.clone(), &bad).is_ok() {
            return Some(("traits:Mac::verify-accepts-wrong-tag".into(), "Err".into(), "Ok".into()));
        }
        if digest::Mac::verify_slice(h2.clone(), &want[..]).is_err() {
            return Some(("traits:Mac::verify_slice".into(), "Ok".into(), "Err".into()));
        }
        if digest::Mac::verify_truncated_left(h2.clone(), &want[..16]).is_err() {
            return Some(("traits:Mac::verify_truncated_left".into(), "Ok".into(), "Err".into()));
        }
        None
    });
    match r {
        Ok(v) => v,
        Err(m) => Some(("traits:panic".into(), "no panic".into(), m)),
    }
}

#[cfg(not(feature = "traits"))]
pub fn traits_state_check(_h2: &blake3::Hasher, _inherent: &blake3::Hasher, _offset: u64) -> V {
    None
}

fn secret_words(mode: &ModeSpec, h: &blake3::Hasher) -> Vec<u32> {
    let s = h.verif_state();
    let mut w: Vec<u32> = vec![];
    if !matches!(mode, ModeSpec::Hash) {
        w.extend_from_slice(&s.key);
    }
    // the running chunk CV starts out as the key; in hash mode that is the public IV
    if !(matches!(mode, ModeSpec::Hash) && s.chunk_state.blocks_compressed == 0) {
        w.extend_from_slice(&s.chunk_state.cv);
    }
    for i in 0..s.cv_stack_len {
        for j in 0..8 {
            w.push(u32::from_le_bytes([s.cv_stack[i][4 * j], s.cv_stack[i][4 * j + 1], s.cv_stack[i][4 * j + 2], s.cv_stack[i][4 * j + 3]]));
        }
    }
    w
}

/// Debug output of two hashers with the same shape but different secrets must be byte-identical,
/// and must not contain the rendering of any secret word.
pub fn debug_check(a: &blake3::Hasher, b: &blake3::Hasher, ma: &ModeSpec, mb: &ModeSpec) -> V {
    for pretty in [false, true] {
        let (da, db) = if pretty { (format!("{:#?}", a), format!("{:#?}", b)) } else { (format!("{:?}", a), format!("{:?}", b)) };
        if da != db {
            return Some(("Debug(Hasher):depends-on-secret".into(), da, db));
        }
        for (m, h, d) in [(ma, a, &da), (mb, b, &db)] {
            for w in secret_words(m, h) {
                if w < 100_000 {
                    continue; // too short to tell from a length or counter
                }
                for r in [format!("{}", w), format!("{:x}", w), format!("{:X}", w)] {
                    if d.contains(&r) {
                        return Some(("Debug(Hasher):contains-secret-word".into(), "no secret word".into(), format!("{} in {}", r, d)));
                    }
                }
            }
        }
    }
    None
}
