//! C15: the reference implementation and the published vectors against the spec model.
use crate::subject::{self, ModeSpec};
use vcommon::serde_json::{json, Value};
use vcommon::{Args, Report};

fn ref_hasher(m: &ModeSpec) -> reference_impl::Hasher {
    match m {
        ModeSpec::Hash => reference_impl::Hasher::new(),
        ModeSpec::Keyed(k) => reference_impl::Hasher::new_keyed(k),
        ModeSpec::Derive(c) | ModeSpec::DeriveCk(c) => reference_impl::Hasher::new_derive_key(c),
    }
}

fn case(m: &ModeSpec, ops: &[usize], out_len: usize, key: &str, exp: &str, obs: &str) -> Value {
    json!({"property": "C15", "engine": "core/refimpl", "subject": "reference_impl::Hasher", "mode": m.json(), "stream": "A",
           "ops": ops.iter().map(|k| json!(["update", k])).collect::<Vec<_>>(), "out_len": out_len, "check": key, "expected": exp, "observed": obs})
}

/// One history on a fresh reference hasher; finalize into `out_len` bytes; compare with the spec.
fn run_history(m: &ModeSpec, data: &[u8], ops: &[usize], out_lens: &[usize], oracle: &mut b3spec::StreamOracle, rep: &mut Report) {
    let total: usize = ops.iter().sum();
    let node = oracle.prefix(total);
    for &ol in out_lens {
        rep.inc("evaluations");
        rep.inc("spec_comparisons");
        let r = vcommon::catch(|| {
            let mut h = ref_hasher(m);
            let mut at = 0;
            for &k in ops {
                h.update(&data[at..at + k]);
                at += k;
            }
            let mut out = vec![0xEEu8; ol + 8];
            h.finalize(&mut out[..ol]);
            // finalize takes &self: a second call gives the same bytes
            let mut out2 = vec![0u8; ol];
            h.finalize(&mut out2);
            (out, out2)
        });
        let exp = node.root_bytes(0, ol);
        match r {
            Ok((out, out2)) => {
                if out[..ol] != exp[..] {
                    rep.violation("reference_impl:mismatch", format!("reference {} after updates {:?}, {} output bytes: differs from the spec", m.name(), ops, ol),
                        case(m, ops, ol, "reference_impl:mismatch", &vcommon::hex(&exp[..ol.min(32)]), &vcommon::hex(&out[..ol.min(32)])));
                } else if out[ol..].iter().any(|b| *b != 0xEE) {
                    rep.violation("reference_impl:writes-past-output", format!("reference {} wrote past {} output bytes", m.name(), ol), case(m, ops, ol, "reference_impl:writes-past-output", "canary", "overwritten"));
                } else if out2[..] != exp[..] {
                    rep.violation("reference_impl:finalize-not-repeatable", format!("reference {} second finalize differs", m.name()), case(m, ops, ol, "reference_impl:finalize-not-repeatable", "same", "differs"));
                }
            }
            Err(msg) => rep.violation("reference_impl:panic", format!("reference {} after updates {:?}, {} output bytes panics: {}", m.name(), ops, ol, msg),
                case(m, ops, ol, "reference_impl:panic", "no panic", &msg)),
        }
    }
}

const FINE: [usize; 12] = [0, 1, 2, 63, 64, 65, 127, 128, 960, 1023, 1024, 1025];
const COARSE: [usize; 8] = [1024, 2048, 3072, 4096, 7168, 8192, 16384, 17408];

fn histories(alpha: &[usize], depth: usize, out: &mut Vec<Vec<usize>>) {
    let mut cur: Vec<Vec<usize>> = vec![vec![]];
    for _ in 0..depth {
        let mut next = vec![];
        for h in &cur {
            for &k in alpha {
                let mut n = h.clone();
                n.push(k);
                next.push(n);
            }
        }
        out.extend(next.iter().cloned());
        cur = next;
    }
}

pub fn run(args: &Args, rep: &mut Report) {
    let t = args.thorough();
    let modes = subject::primary_modes();
    let full = if t { 160 * 1024 + 1 } else { 65 * 1024 + 1 };
    let mut lens: Vec<usize> = (0..=full).collect();
    lens.extend(crate::c01::lite_lengths().into_iter().filter(|l| *l > full));
    lens.extend([100 * 1024, 128 * 1024 + 1]);
    let max = 400 * 1024;
    // work items: (mode, kind)
    let mut work: Vec<(ModeSpec, u32)> = vec![];
    for m in &modes {
        for kind in 0..4 {
            work.push((m.clone(), kind));
        }
    }
    // the key / context side: every context length, every single-bit key (kind 4/5, mode ignored)
    let ctx_max = if t { 8300 } else { 3200 };
    for part in 0..8u32 {
        work.push((ModeSpec::Hash, 100 + part));
    }
    let lens_ref = &lens;
    let r = vcommon::par_run(args.jobs, work, rep, |(m, kind), local| {
        if *kind >= 100 {
            let part = (*kind - 100) as usize;
            let small = vcommon::stream_a(3000);
            let mut ms: Vec<ModeSpec> = vec![];
            for c in (0..=ctx_max).filter(|c| c % 8 == part) {
                ms.push(ModeSpec::Derive(subject::context_of_len(c)));
            }
            if part == 0 {
                ms.extend(subject::secondary_modes(true));
            }
            for m in &ms {
                let mut oracle = b3spec::StreamOracle::new(m.spec(), small.clone());
                for ops in [&[0usize][..], &[1], &[1025], &[65, 960, 1030]] {
                    run_history(m, &small, ops, &[32, 65], &mut oracle, local);
                    local.inc("distinct_nontrivial");
                }
            }
            local.add("key_context_variants", ms.len() as u64);
            return;
        }
        let data = vcommon::stream_a(max);
        let mut oracle = b3spec::StreamOracle::new(m.spec(), data.clone());
        match kind {
            0 => {
                // single update, every length; 32 and 131 output bytes
                for &n in lens_ref.iter() {
                    run_history(m, &data, &[n], &[32, 131], &mut oracle, local);
                    local.inc("distinct_nontrivial");
                }
            }
            1 => {
                let mut hs = vec![];
                histories(&FINE, if t { 5 } else { 4 }, &mut hs);
                for h in &hs {
                    run_history(m, &data, h, &[64], &mut oracle, local);
                    if h.len() >= 2 {
                        local.inc("distinct_nontrivial");
                    }
                }
                local.sample(json!({"mode": m.json(), "ops": hs[hs.len() / 2].iter().map(|k| json!(["update", k])).collect::<Vec<_>>(), "out_len": 64}));
            }
            2 => {
                let mut hs = vec![];
                histories(&COARSE, if t { 4 } else { 3 }, &mut hs);
                for h in &hs {
                    run_history(m, &data, h, &[32], &mut oracle, local);
                    if h.len() >= 2 {
                        local.inc("distinct_nontrivial");
                    }
                }
            }
            _ => {
                // every output length 0..=200 and a few long ones, on several inputs
                let mut ols: Vec<usize> = (0..=200).collect();
                ols.extend([1024, 1025, 4099]);
                for n in [0usize, 1, 64, 1024, 1025, 5000] {
                    run_history(m, &data, &[n], &ols, &mut oracle, local);
                    local.add("distinct_nontrivial", ols.len() as u64);
                }
            }
        }
    });
    rep.merge(r);
    big_counters(rep, t);
    vectors(rep);
    rep.configs.push(subject::config_json());
    rep.rule = format!("reference_impl::Hasher in three modes: single update of every length 0..={} (+ lattice) with 32 and 131 output bytes; every history of <= {} updates over the fine alphabet and <= 3 (4 thorough) over the coarse alphabet; every output length 0..=200 and 1024/1025/4099 on six inputs; one output of 2^22+200 bytes (thorough 2^28+200) and one input of 2^26+3149 bytes (thorough 2^30+3149), i.e. block and chunk counters past 2^16 (2^22 / 2^20); derive_key with a context of every length 0..={} and keyed mode with every single-bit key (four histories each); every field of test_vectors.json (key, context, 35 lengths, 3 x 131 bytes, input pattern) against the spec model and directly against the optimized crate and the reference implementation; non-trivial = distinct cases with >= 2 updates, or distinct lengths", full, if t { 5 } else { 4 }, ctx_max);
    rep.assumptions.push("content restricted to stream A (the published vectors use exactly this pattern)".into());
}

/// Counters beyond 16 bits (the reference never sees them in the sweeps above): one long output
/// (block counter past 2^16; thorough 2^22) and one long input (chunk counter past 2^16; thorough
/// 2^20), in keyed mode. The spec gives any window of the output stream directly; the long input's
/// spec value is composed from aligned subtrees computed on threads (self-checked at a small scale).
fn big_counters(rep: &mut Report, thorough: bool) {
    let mode = ModeSpec::Keyed(*vcommon::TEST_KEY);
    let sm = mode.spec();
    let bad = |rep: &mut Report, key: &str, what: String| {
        rep.violation(key, what, json!({"property": "C15", "engine": "core/refimpl", "subject": "reference_impl::Hasher", "big_counters": true, "check": key}));
    };
    // (a) long output
    let out_len: usize = if thorough { (1 << 28) + 200 } else { (1 << 22) + 200 };
    let input = vcommon::stream_a(1025);
    let node = b3spec::node(&sm, &input, 0);
    rep.inc("evaluations");
    rep.inc("distinct_nontrivial");
    let r = vcommon::catch(|| {
        let mut h = ref_hasher(&mode);
        h.update(&input);
        let mut out = vec![0u8; out_len];
        h.finalize(&mut out);
        out
    });
    match r {
        Ok(out) => {
            let mut windows: Vec<(usize, usize)> = vec![(0, 256), (out_len - 300, 300)];
            let mut p = 1usize << 16;
            while p < out_len {
                // both sides of every power-of-two output offset (block counter bits 10 and up)
                windows.push((p - 128, 328.min(out_len - (p - 128))));
                p <<= 1;
            }
            for (at, n) in windows {
                rep.inc("spec_comparisons");
                if out[at..at + n] != node.root_bytes(at as u64, n)[..] {
                    bad(rep, "reference_impl:long-output", format!("reference keyed output of {} bytes differs from the spec in [{}, {})", out_len, at, at + n));
                    break;
                }
            }
        }
        Err(m) => bad(rep, "reference_impl:panic", format!("reference finalize into {} bytes panics: {}", out_len, m)),
    }
    // (b) long input
    let sub: usize = if thorough { 1 << 26 } else { 1 << 22 };
    let n = 16 * sub + 3 * 1024 + 77;
    let data = vcommon::stream_b(15, n);
    let small_sub = 4096;
    let small = 16 * small_sub + 2000;
    if b3spec::node_parallel16(&sm, &data[..small], small_sub).root_bytes(0, 64) != b3spec::node(&sm, &data[..small], 0).root_bytes(0, 64) {
        eprintln!("ORACLE-ANCHOR-FAILED: parallel composition of the spec differs from the recursive definition");
        std::process::exit(2);
    }
    let exp = b3spec::node_parallel16(&sm, &data, sub).root_bytes(0, 131);
    rep.inc("evaluations");
    rep.inc("distinct_nontrivial");
    rep.inc("spec_comparisons");
    let r = vcommon::catch(|| {
        let mut h = ref_hasher(&mode);
        let cut = n / 3 + 11;
        h.update(&data[..cut]);
        h.update(&data[cut..]);
        let mut out = [0u8; 131];
        h.finalize(&mut out);
        out
    });
    match r {
        Ok(out) if out[..] == exp[..] => {}
        Ok(_) => bad(rep, "reference_impl:long-input", format!("reference keyed hash of {} bytes (chunk counters up to {}) differs from the spec", n, n / 1024)),
        Err(m) => bad(rep, "reference_impl:panic", format!("reference on {} input bytes panics: {}", n, m)),
    }
    rep.add("max_block_counter_reached", (out_len / 64) as u64);
    rep.add("max_chunk_counter_reached", (n / 1024) as u64);
}

/// Every field of the live /repo/test_vectors/test_vectors.json.
fn vectors(rep: &mut Report) {
    let path = "/repo/test_vectors/test_vectors.json";
    let bad = |rep: &mut Report, key: &str, what: String| {
        rep.violation(key, what, json!({"property": "C15", "engine": "core/refimpl", "subject": "test_vectors.json", "check": key}));
    };
    let text = match std::fs::read_to_string(path) {
        Ok(t) => t,
        Err(e) => return bad(rep, "test_vectors:unreadable", format!("{}: {}", path, e)),
    };
    let v: Value = match vcommon::serde_json::from_str(&text) {
        Ok(v) => v,
        Err(e) => return bad(rep, "test_vectors:not-json", e.to_string()),
    };
    rep.inc("evaluations");
    let key = v["key"].as_str().unwrap_or("");
    let ctx = v["context_string"].as_str().unwrap_or("");
    // the key and context the paper's vectors are published with (outside constants)
    if key != "whats the Elvish word for friend" {
        bad(rep, "test_vectors:key-field", format!("key field is {:?}", key));
    }
    if ctx != "BLAKE3 2019-12-27 16:29:52 test vectors context" {
        bad(rep, "test_vectors:context-field", format!("context_string field is {:?}", ctx));
    }
    let comment = v["_comment"].as_str().unwrap_or("");
    if !comment.contains("repeating sequence of 251 bytes") || !comment.contains(key) || !comment.contains(ctx) {
        bad(rep, "test_vectors:comment", "the comment no longer states the input pattern, key and context".into());
    }
    // the 35 published input lengths
    let published: [usize; 35] = [0, 1, 2, 3, 4, 5, 6, 7, 8, 63, 64, 65, 127, 128, 129, 1023, 1024, 1025, 2048, 2049, 3072, 3073, 4096, 4097,
        5120, 5121, 6144, 6145, 7168, 7169, 8192, 8193, 16384, 31744, 102400];
    let cases = v["cases"].as_array().cloned().unwrap_or_default();
    let lens: Vec<usize> = cases.iter().map(|c| c["input_len"].as_u64().unwrap_or(u64::MAX) as usize).collect();
    if lens != published {
        bad(rep, "test_vectors:lengths", format!("input lengths are {:?}", lens));
    }
    let mut kb = [0u8; 32];
    if key.len() == 32 {
        kb.copy_from_slice(key.as_bytes());
    }
    let modes = [("hash", ModeSpec::Hash), ("keyed_hash", ModeSpec::Keyed(kb)), ("derive_key", ModeSpec::Derive(ctx.to_string()))];
    for c in &cases {
        let n = c["input_len"].as_u64().unwrap_or(0) as usize;
        if n > (1 << 22) {
            continue;
        }
        let data = vcommon::stream_a(n);
        for (field, m) in &modes {
            rep.inc("evaluations");
            rep.inc("distinct_nontrivial");
            rep.inc("spec_comparisons");
            let hexs = c[*field].as_str().unwrap_or("");
            let exp = vcommon::hex(&b3spec::xof(&m.spec(), &data, 0, 131));
            if hexs != exp {
                let at = hexs.bytes().zip(exp.bytes()).position(|(a, b)| a != b).unwrap_or(hexs.len().min(exp.len()));
                bad(rep, "test_vectors:value", format!("case input_len={} field {}: differs from the spec at hex digit {} (length {} vs 262)", n, field, at, hexs.len()));
                continue;
            }
            // and both implementations agree with it directly
            let opt = vcommon::catch(|| {
                let mut h = m.hasher();
                h.update(&data);
                let mut o = [0u8; 131];
                h.finalize_xof().fill(&mut o);
                (vcommon::hex(&o), vcommon::hex(&m.oneshot(&data)))
            });
            match opt {
                Ok((x, one)) if x == hexs && hexs.starts_with(&one) => {}
                other => bad(rep, "test_vectors:optimized-crate-differs", format!("input_len={} {}: {:?}", n, field, other.map(|x| x.0[..16].to_string()))),
            }
            let rf = vcommon::catch(|| {
                let mut h = ref_hasher(m);
                h.update(&data);
                let mut o = [0u8; 131];
                h.finalize(&mut o);
                vcommon::hex(&o)
            });
            if rf.as_deref() != Ok(hexs) {
                bad(rep, "test_vectors:reference-impl-differs", format!("input_len={} {}", n, field));
            }
        }
    }
    rep.sample(json!({"subject": "test_vectors.json", "case": {"input_len": 1025, "fields": ["hash", "keyed_hash", "derive_key"], "bytes_each": 131}}));
    #[cfg(feature = "std")]
    generator(rep, &text, &published);
}

/// The test_vectors crate itself (the generator ports and CI use): its constants, its input painter
/// and its generate_json() must describe the same published vectors.
#[cfg(feature = "std")]
fn generator(rep: &mut Report, file_text: &str, published: &[usize; 35]) {
    let bad = |rep: &mut Report, key: &str, what: String| {
        rep.violation(key, what, json!({"property": "C15", "engine": "core/refimpl", "subject": "test_vectors.json", "check": key}));
    };
    rep.inc("evaluations");
    rep.inc("distinct_nontrivial");
    if test_vectors::TEST_CASES != &published[..] {
        bad(rep, "test_vectors:lib:TEST_CASES", format!("test_vectors::TEST_CASES is {:?}", test_vectors::TEST_CASES));
    }
    if &test_vectors::TEST_KEY[..] != b"whats the Elvish word for friend" || test_vectors::TEST_CONTEXT != "BLAKE3 2019-12-27 16:29:52 test vectors context" || test_vectors::OUTPUT_LEN != 131 {
        bad(rep, "test_vectors:lib:constants", "TEST_KEY / TEST_CONTEXT / OUTPUT_LEN differ from the published ones".into());
    }
    let mut buf = vec![0xEEu8; 1000];
    test_vectors::paint_test_input(&mut buf);
    if buf != vcommon::stream_a(1000) {
        bad(rep, "test_vectors:lib:paint_test_input", "paint_test_input is not i % 251".into());
    }
    match vcommon::catch(test_vectors::generate_json) {
        Ok(generated) => {
            rep.inc("evaluations");
            rep.inc("distinct_nontrivial");
            if generated != file_text {
                let at = generated.bytes().zip(file_text.bytes()).position(|(a, b)| a != b).unwrap_or(generated.len().min(file_text.len()));
                bad(rep, "test_vectors:generator-differs-from-file", format!("generate_json() differs from the checked-in test_vectors.json at byte {} ({} vs {} bytes)", at, generated.len(), file_text.len()));
            }
            // and what it generates is the spec, whatever the file says
            if let Ok(v) = vcommon::serde_json::from_str::<Value>(&generated) {
                let kb: [u8; 32] = *b"whats the Elvish word for friend";
                for c in v["cases"].as_array().cloned().unwrap_or_default() {
                    let n = c["input_len"].as_u64().unwrap_or(0) as usize;
                    if n > (1 << 22) {
                        continue;
                    }
                    let data = vcommon::stream_a(n);
                    for (field, m) in [("hash", b3spec::Mode::hash()), ("keyed_hash", b3spec::Mode::keyed(&kb)), ("derive_key", b3spec::Mode::derive(b"BLAKE3 2019-12-27 16:29:52 test vectors context"))] {
                        rep.inc("evaluations");
                        rep.inc("spec_comparisons");
                        if c[field].as_str() != Some(vcommon::hex(&b3spec::xof(&m, &data, 0, 131)).as_str()) {
                            bad(rep, "test_vectors:generator-value", format!("generate_json(): case input_len={} field {} differs from the spec", n, field));
                        }
                    }
                }
            } else {
                bad(rep, "test_vectors:generator-not-json", "generate_json() does not produce JSON".into());
            }
        }
        Err(m) => bad(rep, "test_vectors:generator-panics", m),
    }
}

pub fn replay(v: &Value) -> bool {
    if v["big_counters"].as_bool() == Some(true) {
        let args = Args { prop: "C15".into(), tier: "quick".into(), seed: 1, report: String::new(), replay: None, jobs: 1, extra: Default::default() };
        let mut rep = Report::new(&args, "replay", "exploration");
        big_counters(&mut rep, false);
        for x in rep.violations.iter().take(3) {
            println!("violation {}: {}", x.key, x.summary);
        }
        return rep.violations.iter().any(|x| Some(x.key.as_str()) == v["check"].as_str());
    }
    if v["subject"].as_str() == Some("test_vectors.json") {
        let args = Args { prop: "C15".into(), tier: "quick".into(), seed: 1, report: String::new(), replay: None, jobs: 1, extra: Default::default() };
        let mut rep = Report::new(&args, "replay", "exploration");
        vectors(&mut rep);
        for x in rep.violations.iter().take(3) {
            println!("violation {}: {}", x.key, x.summary);
        }
        return rep.violations.iter().any(|x| Some(x.key.as_str()) == v["check"].as_str());
    }
    let m = ModeSpec::from_json(&v["mode"]);
    let ops: Vec<usize> = v["ops"].as_array().unwrap().iter().map(|o| o[1].as_u64().unwrap() as usize).collect();
    let ol = v["out_len"].as_u64().unwrap_or(32) as usize;
    let total: usize = ops.iter().sum();
    let data = vcommon::stream_a(total + 1);
    let mut oracle = b3spec::StreamOracle::new(m.spec(), data.clone());
    let args = Args { prop: "C15".into(), tier: "quick".into(), seed: 1, report: String::new(), replay: None, jobs: 1, extra: Default::default() };
    let mut rep = Report::new(&args, "replay", "exploration");
    run_history(&m, &data, &ops, &[ol], &mut oracle, &mut rep);
    for x in rep.violations.iter().take(3) {
        println!("violation {}: {}", x.key, x.summary);
    }
    !rep.violations.is_empty()
}
