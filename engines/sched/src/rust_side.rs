//! Rust side of C08 / C18: the real crate under the scripted Join (H3), with scheduling points at
//! every kernel entry (H2) and a forced / scripted Platform::detect() (H1).
use crate::{erase, explore, record, spawn_big, yield_point, LEVEL, POINT};
use blake3::platform::Platform;
use std::collections::HashMap;
use std::sync::atomic::Ordering;
use std::sync::Mutex;
use vcommon::serde_json::{json, Value};
use vcommon::{Args, Report};

#[derive(Clone, Copy, Debug, PartialEq, Eq)]
pub enum Mode {
    LR,
    RL,
    Conc,
}

pub struct JoinCtl {
    pub assign: HashMap<String, Mode>,
    pub seen: Vec<String>,
    pub paths: HashMap<String, String>,
    /// number of top-level joins so far in this execution (one per subtree that update hashes)
    pub tops: usize,
}

impl JoinCtl {
    pub fn reset_run(&mut self) {
        self.seen.clear();
        self.paths.clear();
        self.tops = 0;
    }
}

pub static CTL: Mutex<Option<JoinCtl>> = Mutex::new(None);

pub fn ctl<R>(f: impl FnOnce(&mut JoinCtl) -> R) -> R {
    let mut g = CTL.lock().unwrap();
    if g.is_none() {
        *g = Some(JoinCtl { assign: HashMap::new(), seen: vec![], paths: HashMap::new(), tops: 0 });
    }
    f(g.as_mut().unwrap())
}

pub fn tkey() -> String {
    if POINT.load(Ordering::SeqCst).is_null() {
        format!("os-{:?}", std::thread::current().id())
    } else {
        format!("loom-{:?}", loom::thread::current().id())
    }
}

/// The scripted join shared by the Rust hook and the C `verif_parallel_invoke`.
pub fn scripted_join(a: &mut (dyn FnMut() + Send), b: &mut (dyn FnMut() + Send)) {
    let key = tkey();
    // A node is named by the subtree it belongs to (t0, t1, ... in the order update hashes them; a
    // single update may hash several power-of-two subtrees) and its L/R path inside that subtree.
    let (path, mode, top) = ctl(|c| {
        let (path, top) = match c.paths.get(&key) {
            Some(p) => (p.clone(), false),
            None => {
                let p = format!("t{}", c.tops);
                c.tops += 1;
                (p, true)
            }
        };
        c.seen.push(path.clone());
        let mode = c.assign.get(&path).copied().unwrap_or(Mode::LR);
        (path, mode, top)
    });
    yield_point();
    let run = |side: char, f: &mut (dyn FnMut() + Send)| {
        let k = tkey();
        ctl(|c| c.paths.insert(k.clone(), format!("{}{}", path, side)));
        f();
        ctl(|c| c.paths.insert(k, path.clone()));
    };
    let in_model = !POINT.load(Ordering::SeqCst).is_null();
    match mode {
        Mode::LR => {
            run('L', a);
            run('R', b);
        }
        Mode::RL => {
            run('R', b);
            run('L', a);
        }
        Mode::Conc if !in_model => {
            run('L', a);
            run('R', b);
        }
        Mode::Conc => {
            let bb = unsafe { erase(b) };
            let p = format!("{}R", path);
            let h = spawn_big(move || {
                let k = tkey();
                ctl(|c| c.paths.insert(k.clone(), p));
                bb();
                ctl(|c| c.paths.remove(&k));
            });
            run('L', a);
            h.join().expect("join of the right half");
        }
    }
    if top {
        ctl(|c| c.paths.remove(&key));
    }
    yield_point();
}

fn join_hook(a: &mut (dyn FnMut() + Send), b: &mut (dyn FnMut() + Send)) {
    scripted_join(a, b)
}

fn kernel_hook(_c: blake3::verif_hooks::KernelCall) {
    yield_point();
}

pub fn levels() -> Vec<(String, Platform)> {
    let mut v = vec![("portable".to_string(), Platform::portable())];
    if let Some(p) = Platform::sse2() {
        v.push(("sse2".into(), p));
    }
    if let Some(p) = Platform::sse41() {
        v.push(("sse41".into(), p));
    }
    if let Some(p) = Platform::avx2() {
        v.push(("avx2".into(), p));
    }
    if let Some(p) = Platform::avx512() {
        v.push(("avx512".into(), p));
    }
    v
}

/// detect() answers: a fixed forced level, or (C18) a script indexed by call number.
pub static DETECT_SCRIPT: Mutex<Option<(Vec<usize>, usize)>> = Mutex::new(None);

fn detect_hook() -> Option<Platform> {
    let lv = levels();
    if let Ok(mut g) = DETECT_SCRIPT.try_lock() {
        if let Some((script, calls)) = g.as_mut() {
            let i = *calls;
            *calls += 1;
            let best = lv.len() - 1;
            return Some(lv[script.get(i).copied().unwrap_or(best).min(best)].1);
        }
    }
    let i = LEVEL.load(Ordering::SeqCst);
    if i == usize::MAX { None } else { Some(lv[i.min(lv.len() - 1)].1) }
}

pub fn install_hooks() {
    blake3::verif_hooks::set_detect_hook(Some(detect_hook));
    blake3::verif_hooks::set_kernel_hook(Some(kernel_hook));
    // the return of a kernel is a scheduling point too: what the caller does with the output
    // (copying it out of a buffer, say) is a separate step that another thread can get in front of
    blake3::verif_hooks::set_kernel_exit_hook(Some(kernel_hook));
    blake3::verif_hooks::set_join_hook(Some(join_hook));
    // every atomic / lock / once-cell operation in the crate's own source (instrumented copy)
    vshim::set_hooks(crate::yield_point, blocked_point);
    vshim::set_vthread_hook(virtual_thread_id);
}

/// The identity `thread_local!`s of the instrumented crate are keyed by: the loom thread inside a
/// model (loom's threads are coroutines of one OS thread), the OS thread outside.
fn virtual_thread_id() -> u64 {
    use std::hash::{Hash, Hasher};
    let mut h = std::collections::hash_map::DefaultHasher::new();
    if crate::POINT.load(Ordering::SeqCst).is_null() {
        std::thread::current().id().hash(&mut h);
        h.finish() | (1 << 63)
    } else {
        loom::thread::current().id().hash(&mut h);
        h.finish() & !(1 << 63)
    }
}

fn blocked_point() {
    if crate::POINT.load(Ordering::SeqCst).is_null() {
        std::thread::yield_now();
    } else {
        loom::thread::yield_now();
    }
}

pub fn hasher_bytes(h: &blake3::Hasher) -> Vec<u8> {
    let s = h.verif_state();
    let mut out = Vec::with_capacity(2048);
    for w in s.key {
        out.extend_from_slice(&w.to_le_bytes());
    }
    for w in s.chunk_state.cv {
        out.extend_from_slice(&w.to_le_bytes());
    }
    out.extend_from_slice(&s.chunk_state.chunk_counter.to_le_bytes());
    out.extend_from_slice(&s.chunk_state.buf);
    out.push(s.chunk_state.buf_len);
    out.push(s.chunk_state.blocks_compressed);
    out.push(s.chunk_state.flags);
    out.push(s.chunk_state.platform as u8);
    out.extend_from_slice(&s.initial_chunk_counter.to_le_bytes());
    out.extend_from_slice(&(s.cv_stack_len as u64).to_le_bytes());
    for cv in s.cv_stack.iter() {
        out.extend_from_slice(cv);
    }
    out
}

#[derive(Clone, Debug)]
pub struct Scn {
    pub level: usize,
    pub lname: String,
    pub prefix: usize,
    pub len: usize,
}

fn degree(lname: &str) -> usize {
    match lname {
        "portable" => 1,
        "sse2" | "sse41" => 4,
        "avx2" => 8,
        _ => 16,
    }
}

pub fn scenarios(thorough: bool) -> Vec<Scn> {
    let mut v = vec![];
    for (i, (lname, _)) in levels().iter().enumerate() {
        let d = degree(lname);
        let groups: &[usize] = if thorough { &[2, 3, 4, 5, 7, 8] } else { &[2, 3, 4, 8] };
        for &g in groups {
            for (prefix, tail) in [(0usize, 0usize), (0, 100), (1, 0), (d * 1024, 77)] {
                if !thorough && g == 8 && (prefix != 0 || tail != 0) {
                    continue;
                }
                v.push(Scn { level: i, lname: lname.clone(), prefix, len: g * d * 1024 + tail });
            }
        }
    }
    // smallest split trees first, so that a budget cut removes the largest models
    v.sort_by_key(|s| (s.len / (degree(&s.lname) * 1024), s.prefix != 0, s.level));
    v
}

fn key() -> [u8; 32] {
    *vcommon::TEST_KEY
}

/// One execution of the scenario under the current join script; returns (state bytes, 64 output bytes).
fn run_scn(s: &Scn, data: &[u8]) -> (Vec<u8>, Vec<u8>) {
    let mut h = blake3::Hasher::new_keyed(&key());
    h.update(&data[..s.prefix]);
    h.verif_update_with_join(&data[s.prefix..s.prefix + s.len]);
    let mut out = vec![0u8; 64];
    h.finalize_xof().fill(&mut out);
    (hasher_bytes(&h), out)
}

fn case(s: &Scn, assign: &HashMap<String, Mode>, key: &str) -> Value {
    let mut a: Vec<(String, String)> = assign.iter().map(|(k, v)| (if k.is_empty() { "root".to_string() } else { k.clone() }, format!("{:?}", v))).collect();
    a.sort();
    json!({"property": "C08", "engine": "sched/rust", "subject": "Hasher::update_with_join<VerifJoin>", "level": s.lname, "prefix": s.prefix, "len": s.len, "assignment": a, "check": key})
}

fn subsets(n: usize, maxk: usize) -> Vec<Vec<usize>> {
    let mut out = vec![];
    for mask in 1u32..(1u32 << n) {
        if (mask.count_ones() as usize) <= maxk {
            out.push((0..n).filter(|i| mask & (1 << i) != 0).collect());
        }
    }
    out
}

pub fn c08(args: &Args, rep: &mut Report) {
    let t = args.thorough();
    let data = std::sync::Arc::new(vcommon::stream_b(args.seed, 200 * 1024));
    for s in scenarios(t) {
        LEVEL.store(s.level, Ordering::SeqCst);
        // expected: single-threaded update on the same bytes, tied to the spec
        let (exp_state, exp_out) = {
            let mut h = blake3::Hasher::new_keyed(&key());
            h.update(&data[..s.prefix]);
            h.update(&data[s.prefix..s.prefix + s.len]);
            let mut out = vec![0u8; 64];
            h.finalize_xof().fill(&mut out);
            (hasher_bytes(&h), out)
        };
        let spec = b3spec::xof(&b3spec::Mode::keyed(&key()), &data[..s.prefix + s.len], 0, 64);
        rep.inc("evaluations");
        rep.inc("spec_comparisons");
        if spec != exp_out {
            record("update:differs-from-spec", format!("single-threaded update differs from the spec for {:?}", s), case(&s, &HashMap::new(), "update:differs-from-spec"));
            continue;
        }
        // discover the internal nodes of the split tree
        ctl(|c| {
            c.assign.clear();
            c.reset_run();
        });
        let r0 = run_scn(&s, &data);
        let nodes: Vec<String> = ctl(|c| {
            let mut v = c.seen.clone();
            v.sort();
            v.dedup();
            v
        });
        if r0 != (exp_state.clone(), exp_out.clone()) {
            record("VerifJoin(serial):differs-from-update", format!("update_with_join with the serial script differs from update for {:?}", s), case(&s, &HashMap::new(), "VerifJoin(serial):differs-from-update"));
            continue;
        }
        let k = nodes.len();
        rep.max("max_join_nodes", k as u64);
        if k == 0 || k > 7 {
            continue;
        }
        // (1) every order assignment
        for mask in 0u32..(1u32 << k) {
            let assign: HashMap<String, Mode> = nodes.iter().enumerate().map(|(i, n)| (n.clone(), if mask & (1 << i) != 0 { Mode::RL } else { Mode::LR })).collect();
            ctl(|c| {
                c.assign = assign.clone();
                c.reset_run();
            });
            let r = vcommon::catch(|| run_scn(&s, &data));
            rep.inc("evaluations");
            rep.inc("states");
            rep.add("transitions", k as u64);
            rep.inc("order_assignments");
            if mask != 0 {
                rep.inc("distinct_nontrivial");
            }
            match r {
                Ok(r) if r.0 == exp_state && r.1 == exp_out => {}
                Ok(_) => record("update_with_join:order-dependent", format!("{} update_with_join of {}+{} bytes gives a different state/output under order assignment {:#b} of nodes {:?}", s.lname, s.prefix, s.len, mask, nodes), case(&s, &assign, "update_with_join:order-dependent")),
                Err(m) => record("update_with_join:panic", format!("{} update_with_join panics under order assignment {:#b}: {}", s.lname, mask, m), case(&s, &assign, "update_with_join:panic")),
            }
        }
        // (2) interleavings: up to maxc concurrent nodes, the rest left-first
        let maxc = if t { 3 } else { 2 };
        let bound = if t { 3 } else { 2 };
        if k > 3 && !t {
            // larger trees: only single concurrent nodes in the quick tier
        }
        let sets = subsets(k, if k > 3 && !t { 1 } else { maxc });
        for set in sets {
            let assign: HashMap<String, Mode> = nodes.iter().enumerate().map(|(i, n)| (n.clone(), if set.contains(&i) { Mode::Conc } else { Mode::LR })).collect();
            let s2 = s.clone();
            let d2 = data.clone();
            let es = exp_state.clone();
            let eo = exp_out.clone();
            let a2 = assign.clone();
            // small trees without a bound (all interleavings), larger ones bounded
            let pb = if k <= 3 && set.len() == 1 && s.len <= 4 * 1024 * degree(&s.lname) { None } else if set.len() >= 3 { Some(2) } else { Some(bound) };
            crate::set_current(&format!("Rust crate, update_with_join {:?} with concurrent nodes {:?}", s, set));
            let body = move || {
                ctl(|c| {
                    c.assign = a2.clone();
                    c.reset_run();
                });
                let (s3, d3, es3, eo3, a3) = (s2.clone(), d2.clone(), es.clone(), eo.clone(), a2.clone());
                let w = spawn_big(move || {
                    let r = run_scn(&s3, &d3);
                    if r.0 != es3 || r.1 != eo3 {
                        record("update_with_join:schedule-dependent", format!("{} update_with_join of {}+{} bytes gives a different state/output under some interleaving with concurrent nodes {:?}", s3.lname, s3.prefix, s3.len, a3.iter().filter(|x| *x.1 == Mode::Conc).map(|x| x.0.clone()).collect::<Vec<_>>()), case(&s3, &a3, "update_with_join:schedule-dependent"));
                    }
                });
                w.join().expect("worker");
            };
            // unbounded for the smallest models; otherwise iterative context bounding (bound 1 always,
            // the target bound for models that are small at bound 1 - all models in the thorough tier)
            let n = match pb {
                // bounds 1, 2 and 3 always; without a bound if the model is small at bound 3 (150 schedules quick, 2000 thorough)
                None => {
                    let body = std::sync::Arc::new(body);
                    let (b1, b2, b3, b4) = (body.clone(), body.clone(), body.clone(), body.clone());
                    let n1 = explore(Some(1), 20_000, move || b1());
                    let n2 = explore(Some(2), 20_000, move || b2());
                    let n3 = explore(Some(3), 20_000, move || b3());
                    n1 + n2 + n3 + if n3 <= (if t { 2000 } else { 150 }) { explore(None, 20_000, move || b4()) } else { 0 }
                }
                Some(b) => crate::explore_iterative(b, if t { None } else { Some(60) }, 20_000, body),
            };
            rep.add("evaluations", n);
            rep.add("states", n);
            rep.add("transitions", n);
            rep.add("distinct_nontrivial", n);
            rep.inc("loom_models");
            rep.max("max_preemption_bound_completed", pb.unwrap_or(99) as u64);
        }
        if rep.samples.len() < 3 {
            rep.sample(json!({"level": s.lname, "prefix": s.prefix, "len": s.len, "join_nodes": nodes, "order_assignments": 1u32 << k, "concurrent_sets": "all subsets of <= 2 (quick) / 3 nodes"}));
        }
    }
    LEVEL.store(usize::MAX, Ordering::SeqCst);
    ctl(|c| {
        c.assign.clear();
        c.reset_run();
    });
    rayon_sampling(args, rep);
    pool_tasks_lane(args, rep, "C08");
    miri_pass(args, rep, "C08");
}

/// Real rayon pools (sampling of OS schedules, labelled so): this is what exercises RayonJoin itself.
fn rayon_sampling(args: &Args, rep: &mut Report) {
    let t = args.thorough();
    let data = vcommon::stream_b(args.seed ^ 77, 3 * 1024 * 1024 + 17);
    let dir = format!("/verif/out/sched-rayon-{}", std::process::id());
    let _ = std::fs::create_dir_all(&dir);
    let file = format!("{}/input.bin", dir);
    std::fs::write(&file, &data).expect("scratch file");
    let reps = if t { 50 } else { 8 };
    for threads in [1usize, 2, 3, 4, 8, 16] {
        let pool = rayon_core::ThreadPoolBuilder::new().num_threads(threads).build().expect("pool");
        for &(prefix, len) in &[(0usize, data.len()), (1, 1 << 20), (1024, (1 << 21) + 5), (0, 17 * 1024), (0, (128 << 10) + 1500), (0, (1 << 20) + 2047), (0, (1 << 20) + (256 << 10) + (128 << 10) + 1536), (2048, (256 << 10) + 1025)] {
            let mut eh = blake3::Hasher::new();
            eh.update(&data[..prefix]);
            eh.update(&data[prefix..prefix + len]);
            let exp = hasher_bytes(&eh);
            for _ in 0..reps {
                rep.inc("evaluations");
                rep.inc("rayon_pool_runs_sampled");
                let got = vcommon::catch(|| pool.install(|| {
                    let mut h = blake3::Hasher::new();
                    h.update(&data[..prefix]);
                    h.update_rayon(&data[prefix..prefix + len]);
                    hasher_bytes(&h)
                }));
                if let Err(m) = &got {
                    record("update_rayon:panic", format!("update_rayon with {} threads on {}+{} bytes panics: {}", threads, prefix, len, m), json!({"property": "C08", "engine": "sched/rust", "subject": "update_rayon", "threads": threads, "prefix": prefix, "len": len, "check": "update_rayon:panic"}));
                    break;
                }
                if got != Ok(exp.clone()) {
                    record("update_rayon:differs-from-update", format!("update_rayon with {} threads on {}+{} bytes differs from update", threads, prefix, len), json!({"property": "C08", "engine": "sched/rust", "subject": "update_rayon", "threads": threads, "prefix": prefix, "len": len, "check": "update_rayon:differs-from-update"}));
                }
            }
        }
        let exp = {
            let mut h = blake3::Hasher::new();
            h.update(&data);
            hasher_bytes(&h).len() as u64 + h.count()
        };
        let _ = exp;
        let want = *blake3::Hasher::new().update(&data).finalize().as_bytes();
        for _ in 0..reps {
            rep.inc("evaluations");
            rep.inc("rayon_pool_runs_sampled");
            let got = vcommon::catch(|| pool.install(|| {
                let mut h = blake3::Hasher::new();
                h.update_mmap_rayon(&file).map(|h| (*h.finalize().as_bytes(), h.count())).ok()
            })).unwrap_or(None);
            if got != Some((want, data.len() as u64)) {
                record("update_mmap_rayon:differs-from-update", format!("update_mmap_rayon with {} threads differs from update", threads), json!({"property": "C08", "engine": "sched/rust", "subject": "update_mmap_rayon", "threads": threads, "check": "update_mmap_rayon:differs-from-update"}));
            }
        }
    }
    let _ = std::fs::remove_dir_all(&dir);
}

// ------------------------------------------------------------------------------------------------
// C18

pub const NSEQ: usize = 8;

/// Thorough tier: the two long sequences use their full sizes; quick: about half (the number of
/// schedules grows with the square of the number of kernel calls).
pub static HEAVY: std::sync::atomic::AtomicBool = std::sync::atomic::AtomicBool::new(false);

fn sizes() -> (usize, usize, usize, usize) {
    // (seq 0 reader part, seq 0 total, seq 1 reader end, seq 1 clone update)
    if HEAVY.load(Ordering::SeqCst) { (3000, 9000, 5100, 9000) } else { (1500, 4000, 2200, 3000) }
}

/// A complete operation sequence on instances private to the caller; returns everything observable.
pub fn op_sequence(which: usize, data: &[u8]) -> Vec<u8> {
    let mut out = vec![];
    match which % NSEQ {
        6 | 7 => {
            // key derivation twice with this thread's own context string (anything the crate remembers
            // about "the last context" or "the last key" must not leak between threads), then keyed
            let ctx = if which % NSEQ == 6 { "vsched context six" } else { "vsched context seven, a little longer" };
            out.extend_from_slice(&blake3::derive_key(ctx, &data[..70]));
            let mut h = blake3::Hasher::new_derive_key(ctx);
            h.update(&data[70..200]);
            out.extend_from_slice(h.finalize().as_bytes());
            out.extend_from_slice(&blake3::derive_key(ctx, &data[3..9]));
            let mut k = key();
            k[0] ^= (which % NSEQ) as u8;
            out.extend_from_slice(blake3::keyed_hash(&k, &data[..65]).as_bytes());
            out.extend_from_slice(blake3::keyed_hash(&k, &data[1..3]).as_bytes());
            // several short reads inside one output block, then across its end
            let mut kh = blake3::Hasher::new_keyed(&k);
            kh.update(&data[..40]);
            let mut rd = kh.finalize_xof();
            let mut b = [0u8; 70];
            rd.fill(&mut b[..16]);
            rd.fill(&mut b[16..32]);
            rd.fill(&mut b[32..70]);
            out.extend_from_slice(&b);
        }
        4 => {
            out.extend_from_slice(blake3::hash(&data[..1025]).as_bytes());
        }
        5 => {
            let mut h = blake3::Hasher::new_keyed(&key());
            h.update_reader(&data[..100]).expect("slice reader");
            let mut b = [0u8; 100];
            h.finalize_xof().fill(&mut b);
            out.extend_from_slice(&b);
        }
        0 => {
            // the reader / Write adapters too: their staging buffer must be private to the call
            let (a, b, _, _) = sizes();
            let mut h = blake3::Hasher::new();
            h.update_reader(std::io::Cursor::new(&data[..a])).expect("cursor");
            std::io::copy(&mut std::io::Cursor::new(&data[a..b]), &mut h).expect("copy");
            out.extend_from_slice(h.finalize().as_bytes());
            out.extend_from_slice(&h.count().to_le_bytes());
        }
        1 => {
            let (_, _, e, cu) = sizes();
            let mut h = blake3::Hasher::new_keyed(&key());
            h.update_reader(&data[100..e]).expect("slice reader");
            let mut rd = h.finalize_xof();
            rd.set_position(64 * (1u64 << 32) - 64);
            let mut b = [0u8; 200];
            rd.fill(&mut b);
            out.extend_from_slice(&b);
            let mut c = h.clone();
            c.update(&data[..cu]);
            out.extend_from_slice(c.finalize().as_bytes());
        }
        2 => {
            out.extend_from_slice(&blake3::derive_key("vsched context", &data[7..2056]));
            out.extend_from_slice(blake3::hash(&data[..5000]).as_bytes());
        }
        _ => {
            out.extend_from_slice(blake3::keyed_hash(&key(), &data[..1025]).as_bytes());
            let l = blake3::hash(b"left");
            let r = blake3::hash(b"right");
            out.extend_from_slice(blake3::hazmat::merge_subtrees_root(l.as_bytes(), r.as_bytes(), blake3::hazmat::Mode::Hash).as_bytes());
        }
    }
    out
}

pub fn spec_sequence(which: usize, data: &[u8]) -> Vec<u8> {
    let mut out = vec![];
    let hm = b3spec::Mode::hash();
    let km = b3spec::Mode::keyed(&key());
    match which % NSEQ {
        6 | 7 => {
            let ctx: &[u8] = if which % NSEQ == 6 { b"vsched context six" } else { b"vsched context seven, a little longer" };
            let dm = b3spec::Mode::derive(ctx);
            out.extend_from_slice(&b3spec::hash32(&dm, &data[..70]));
            out.extend_from_slice(&b3spec::hash32(&dm, &data[70..200]));
            out.extend_from_slice(&b3spec::hash32(&dm, &data[3..9]));
            let mut k = key();
            k[0] ^= (which % NSEQ) as u8;
            let km2 = b3spec::Mode::keyed(&k);
            out.extend_from_slice(&b3spec::hash32(&km2, &data[..65]));
            out.extend_from_slice(&b3spec::hash32(&km2, &data[1..3]));
            out.extend_from_slice(&b3spec::xof(&km2, &data[..40], 0, 70));
        }
        4 => out.extend_from_slice(&b3spec::hash32(&hm, &data[..1025])),
        5 => out.extend_from_slice(&b3spec::xof(&km, &data[..100], 0, 100)),
        0 => {
            let (_, b, _, _) = sizes();
            out.extend_from_slice(&b3spec::hash32(&hm, &data[..b]));
            out.extend_from_slice(&(b as u64).to_le_bytes());
        }
        1 => {
            let (_, _, e, cu) = sizes();
            out.extend_from_slice(&b3spec::xof(&km, &data[100..e], 64 * (1u64 << 32) - 64, 200));
            let mut cat = data[100..e].to_vec();
            cat.extend_from_slice(&data[..cu]);
            out.extend_from_slice(&b3spec::hash32(&km, &cat));
        }
        2 => {
            out.extend_from_slice(&b3spec::hash32(&b3spec::Mode::derive(b"vsched context"), &data[7..2056]));
            out.extend_from_slice(&b3spec::hash32(&hm, &data[..5000]));
        }
        _ => {
            out.extend_from_slice(&b3spec::hash32(&km, &data[..1025]));
            let l = b3spec::hash32(&hm, b"left");
            let r = b3spec::hash32(&hm, b"right");
            out.extend_from_slice(&b3spec::parent_node(&hm, &l, &r).root_block(0)[..32]);
        }
    }
    out
}

pub fn c18(args: &Args, rep: &mut Report) {
    let t = args.thorough();
    HEAVY.store(t, Ordering::SeqCst);
    let data = std::sync::Arc::new(vcommon::stream_b(args.seed ^ 0x18, 80 * 1024));
    let solo: Vec<Vec<u8>> = (0..NSEQ).map(|w| spec_sequence(w, &data)).collect();
    let lv = levels();
    // (a) interleavings of complete operation sequences on disjoint instances
    let combos: Vec<Vec<usize>> = if t { vec![vec![0, 1], vec![1, 2], vec![2, 3], vec![0, 3], vec![1, 1], vec![4, 5, 3], vec![0, 1, 2], vec![1, 2, 3], vec![3, 3, 0], vec![6, 7], vec![6, 6], vec![6, 2], vec![6, 7, 2]] } else { vec![vec![0, 1], vec![1, 2], vec![2, 3], vec![1, 1], vec![6, 7], vec![6, 6], vec![4, 5, 3], vec![5, 5, 4]] };
    // thorough tier: a first pass gives every model its bound-1 exploration before any model is escalated
    for bound1_pass in (if t { vec![true, false] } else { vec![false] }) {
    for (li, (lname, _)) in lv.iter().enumerate() {
        if !t && !(li == 0 || li == lv.len() - 1) {
            continue;
        }
        LEVEL.store(li, Ordering::SeqCst);
        // the solo results at this level equal the spec
        for w in 0..NSEQ {
            rep.inc("evaluations");
            rep.inc("spec_comparisons");
            if op_sequence(w, &data) != solo[w] {
                record("solo:differs-from-spec", format!("operation sequence {} alone at {} differs from the spec", w, lname), json!({"property": "C18", "engine": "sched/rust", "level": lname, "sequence": w, "check": "solo:differs-from-spec"}));
            }
        }
        for combo in &combos {
            if !t && combo.len() == 3 && li != lv.len() - 1 {
                continue;
            }
            let (c2, d2, s2, ln) = (combo.clone(), data.clone(), solo.clone(), lname.clone());
            let bound = if combo.len() == 3 { 2 } else if t { 3 } else { 2 };
            crate::set_current(&format!("Rust crate at {}, threads running operation sequences {:?} on their own instances", lname, combo));
            let n = crate::explore_iterative(if bound1_pass { 1 } else { bound }, if !t { Some(110) } else if combo.len() == 3 { Some(300) } else { None }, 50_000, move || {
                let mut hs = vec![];
                for (slot, &w) in c2.iter().enumerate() {
                    let (d3, s3, ln3, c3) = (d2.clone(), s2.clone(), ln.clone(), c2.clone());
                    hs.push(spawn_big(move || {
                        let got = op_sequence(w, &d3);
                        if got != s3[w] {
                            record("isolation:result-differs-from-solo-run", format!("operation sequence {} (thread {} of {:?}) at {} gives a different result when interleaved with the others", w, slot, c3, ln3), json!({"property": "C18", "engine": "sched/rust", "level": ln3, "threads": c3, "check": "isolation:result-differs-from-solo-run"}));
                        }
                    }));
                }
                for h in hs {
                    h.join().expect("worker");
                }
            });
            rep.add("evaluations", n);
            rep.add("states", n);
            rep.add("transitions", n);
            rep.add("distinct_nontrivial", n.saturating_sub(1));
            rep.inc("loom_models");
        }
        if rep.samples.len() < 2 {
            let (a, b, e, cu) = sizes();
            rep.sample(json!({"side": "rust", "level": lname, "threads": [["Hasher::new", format!("update_reader({})", a), format!("io::copy({})", b - a), "finalize", "count"], ["Hasher::new_keyed", format!("update_reader({})", e - 100), "finalize_xof", "set_position(2^38-64)", "fill(200)", "clone", format!("update({})", cu), "finalize"]], "preemption_bounds": "1, then 2 (3 thorough) if small at bound 1"}));
        }
    }
    }
    LEVEL.store(usize::MAX, Ordering::SeqCst);
    // (b) every detect() call may answer any level up to the best: all answer sequences with <= 2 deviations
    let best = lv.len() - 1;
    let run_scripted = |script: &[usize]| -> (usize, bool) {
        *DETECT_SCRIPT.lock().unwrap() = Some((script.to_vec(), 0));
        let mut ok = true;
        for w in 0..NSEQ {
            if op_sequence(w, &data) != solo[w] {
                ok = false;
            }
        }
        let calls = DETECT_SCRIPT.lock().unwrap().take().map(|x| x.1).unwrap_or(0);
        (calls, ok)
    };
    fn rec(prefix: Vec<usize>, used: u32, bound: u32, best: usize, run: &dyn Fn(&[usize]) -> (usize, bool), rep: &mut Report) {
        let (calls, ok) = run(&prefix);
        rep.inc("evaluations");
        rep.inc("states");
        rep.add("transitions", calls as u64);
        rep.inc("detect_answer_sequences");
        if used > 0 {
            rep.inc("distinct_nontrivial");
        }
        if !ok {
            record("detect-answers:result-depends-on-detected-level", format!("results change when Platform::detect() answers {:?} (level indices, call by call)", prefix), json!({"property": "C18", "engine": "sched/rust", "detect_answers": prefix, "check": "detect-answers:result-depends-on-detected-level"}));
            return;
        }
        if used >= bound {
            return;
        }
        for i in prefix.len()..calls {
            for alt in 0..best {
                let mut p = prefix.clone();
                while p.len() < i {
                    p.push(best);
                }
                p.push(alt);
                rec(p, used + 1, bound, best, run, rep);
            }
        }
    }
    if best > 0 {
        rec(vec![], 0, 2, best, &run_scripted, rep);
    }
    static_scan(rep);
    pool_tasks_lane(args, rep, "C18");
    miri_pass(args, rep, "C18");
    // (c) sampling: 16 real threads as the very first calls of fresh processes
    let runs = if t { 200 } else { 20 };
    for i in 0..runs {
        let st = std::process::Command::new(std::env::current_exe().unwrap())
            .args(["--prop", "C18", "--report", "/dev/null", "--child", "fresh", "--seed", &args.seed.to_string()])
            .status();
        rep.inc("evaluations");
        rep.inc("fresh_process_runs_sampled");
        match st {
            Ok(s) if s.success() => {}
            other => record("fresh-process:result-differs", format!("16 threads started together in a fresh process: run {} failed ({:?})", i, other.map(|s| s.code())), json!({"property": "C18", "engine": "sched/rust", "check": "fresh-process:result-differs"})),
        }
    }
}

/// `--child pooltasks`: several tasks of one rayon pool each drive their own hashers through
/// update_rayon / update_mmap-free paths at the same time (what a par_iter over files does). Results
/// must equal single-threaded update; the parent turns "did not finish" into a verdict.
pub fn pool_tasks_child() {
    blake3::verif_hooks::set_detect_hook(None);
    blake3::verif_hooks::set_kernel_hook(None);
    blake3::verif_hooks::set_kernel_exit_hook(None);
    blake3::verif_hooks::set_join_hook(None);
    let data = std::sync::Arc::new(vcommon::stream_b(0x9001, 2 * 1024 * 1024 + 4096));
    let bad = std::sync::Arc::new(std::sync::atomic::AtomicU64::new(0));
    for threads in [2usize, 4] {
        let pool = rayon_core::ThreadPoolBuilder::new().num_threads(threads).build().expect("pool");
        for round in 0..6usize {
            pool.scope(|s| {
                for i in 0..12usize {
                    let (d, b) = (data.clone(), bad.clone());
                    s.spawn(move |_| {
                        let off = 1 + i * 37 + round;
                        let len = [200 * 1024 + i, 1024 * 1024 + 17 * i, 129 * 1024, 3000, 512 * 1024 + 1][(i + round) % 5];
                        let key = [i as u8 ^ 0x5a; 32];
                        let mut a = blake3::Hasher::new_keyed(&key);
                        a.update(&d[..off]);
                        a.update_rayon(&d[off..off + len]);
                        let mut e = blake3::Hasher::new_keyed(&key);
                        e.update(&d[..off + len]);
                        if a.finalize() != e.finalize() || a.count() != e.count() {
                            b.fetch_add(1, Ordering::SeqCst);
                        }
                    });
                }
            });
        }
    }
    std::process::exit(if bad.load(Ordering::SeqCst) == 0 { 0 } else { 1 });
}

/// Runs the `pooltasks` child with a wall-clock limit (sampling of real schedules, labelled so).
pub fn pool_tasks_lane(args: &Args, rep: &mut Report, prop: &str) {
    let limit = std::time::Duration::from_secs(60);
    let mut child = match std::process::Command::new(std::env::current_exe().unwrap())
        .args(["--prop", prop, "--report", "/dev/null", "--child", "pooltasks", "--seed", &args.seed.to_string()])
        .spawn()
    {
        Ok(c) => c,
        Err(_) => return,
    };
    let t0 = std::time::Instant::now();
    rep.inc("evaluations");
    rep.inc("pool_task_runs_sampled");
    loop {
        match child.try_wait() {
            Ok(Some(st)) => {
                if !st.success() {
                    record("pool-tasks:result-differs", format!("tasks of one rayon pool calling update_rayon on their own hashers at the same time: results differ from update (exit {:?})", st.code()), json!({"property": prop, "engine": "sched/rust", "check": "pool-tasks:result-differs"}));
                }
                return;
            }
            Ok(None) if t0.elapsed() > limit => {
                let _ = child.kill();
                let _ = child.wait();
                record("pool-tasks:never-finish", format!("tasks of one rayon pool calling update_rayon on their own hashers at the same time did not finish within {} s (deadlock between independent hashers)", limit.as_secs()), json!({"property": prop, "engine": "sched/rust", "check": "pool-tasks:never-finish"}));
                return;
            }
            Ok(None) => std::thread::sleep(std::time::Duration::from_millis(50)),
            Err(_) => return,
        }
    }
}

/// `--child fresh`: 16 OS threads released together; their first blake3 calls race on detection.
pub fn fresh_process_child() {
    // no forced level, no join script, no scheduling points: the real thing
    blake3::verif_hooks::set_detect_hook(None);
    blake3::verif_hooks::set_kernel_hook(None);
    blake3::verif_hooks::set_join_hook(None);
    let seed: u64 = std::env::args().skip_while(|a| a != "--seed").nth(1).and_then(|s| s.parse().ok()).unwrap_or(1);
    let data = std::sync::Arc::new(vcommon::stream_b(seed ^ 0x18, 80 * 1024));
    let barrier = std::sync::Arc::new(std::sync::Barrier::new(16));
    let mut hs = vec![];
    for i in 0..16usize {
        let (d, b) = (data.clone(), barrier.clone());
        hs.push(std::thread::spawn(move || {
            let want = spec_sequence(i, &d);
            b.wait();
            op_sequence(i, &d) == want
        }));
    }
    let ok = hs.into_iter().all(|h| h.join().unwrap_or(false));
    std::process::exit(if ok { 0 } else { 1 });
}

/// Supporting pass (decides nothing): list mutable statics / file-scope objects of the crate and the
/// C library, so that the claim "the explorer owns every shared location" can be read off the evidence.
fn static_scan(rep: &mut Report) {
    let mut found: Vec<String> = vec![];
    if let Ok(rd) = std::fs::read_dir("/repo/src") {
        for e in rd.flatten() {
            let p = e.path();
            let name = p.file_name().unwrap().to_string_lossy().to_string();
            if !name.ends_with(".rs") || name == "test.rs" || name == "verif_hooks.rs" {
                continue;
            }
            if let Ok(text) = std::fs::read_to_string(&p) {
                for (i, l) in text.lines().enumerate() {
                    let t = l.trim_start();
                    if t.starts_with("//") {
                        continue;
                    }
                    let is_static = t.starts_with("static ") || t.starts_with("pub static ") || t.starts_with("pub(crate) static ") || t.contains("static mut ") || t.contains("thread_local!") || t.contains("lazy_static") || t.contains("OnceLock") || t.contains("OnceCell");
                    if is_static || t.contains("cpufeatures::new!") {
                        found.push(format!("src/{}:{}: {}", name, i + 1, t.chars().take(90).collect::<String>()));
                    }
                }
            }
        }
    }
    for f in ["blake3.c", "blake3_dispatch.c", "blake3_portable.c", "blake3_tbb.cpp"] {
        if let Ok(text) = std::fs::read_to_string(format!("/repo/c/{}", f)) {
            for (i, l) in text.lines().enumerate() {
                let file_scope = !l.starts_with(' ') && !l.starts_with('\t');
                let t = l.trim();
                if t.starts_with("//") || t.starts_with("/*") || t.starts_with('#') {
                    continue;
                }
                let mutable_static = (file_scope && t.starts_with("static ") && !t.contains('(') && !t.contains("const ")) || t.contains("g_cpu_features =") && file_scope || (t.starts_with("static ") && !file_scope && !t.contains("const ") && !t.contains('('));
                if mutable_static || (t.contains("ATOMIC_INT g_cpu_features")) {
                    found.push(format!("c/{}:{}: {}", f, i + 1, t.chars().take(90).collect::<String>()));
                }
            }
        }
    }
    found.sort();
    rep.add("shared_mutable_locations_listed", found.len() as u64);
    rep.extra.insert("shared_mutable_locations".into(), json!(found));
}

/// Free-running race pass on the Rust side (thorough tier): engines/miripass under miri's
/// data-race detector, a few scheduler seeds. Sampling of schedules, labelled so; the portable
/// path only (miri does not execute SIMD intrinsics or assembly).
pub fn miri_pass(args: &Args, rep: &mut Report, prop: &str) {
    if !args.thorough() {
        return;
    }
    let dir = concat!(env!("CARGO_MANIFEST_DIR"), "/../miripass");
    for seed in 1..=3u32 {
        let out = std::process::Command::new("cargo")
            .args(["+nightly", "miri", "run", "--offline"])
            .current_dir(dir)
            .env("RUSTFLAGS", "--cfg blake3_team_blake3_verif")
            .env("MIRIFLAGS", format!("-Zmiri-disable-isolation -Zmiri-seed={}", seed))
            .env("CARGO_TARGET_DIR", "/verif/target/miripass")
            .env("CARGO_NET_OFFLINE", "true")
            .output();
        let out = match out {
            Ok(o) => o,
            Err(e) => {
                rep.cap(&format!("miri pass not run: cargo +nightly miri could not be started ({})", e));
                return;
            }
        };
        let text = format!("{}{}", String::from_utf8_lossy(&out.stdout), String::from_utf8_lossy(&out.stderr));
        if text.contains("MIRI-PASS-OK") && out.status.success() {
            rep.inc("evaluations");
            rep.inc("miri_runs_sampled");
            continue;
        }
        if text.contains("Undefined Behavior") || text.contains("panicked at") {
            let line = text.lines().find(|l| l.contains("Undefined Behavior") || l.contains("panicked at")).unwrap_or("").trim().to_string();
            let site = text.lines().find(|l| l.trim_start().starts_with("-->") && l.contains("/repo/")).unwrap_or("").trim().to_string();
            let kind = if line.contains("Data race") { "data-race" } else if line.contains("Undefined Behavior") { "undefined-behaviour" } else { "mismatch" };
            let file = site.rsplit('/').next().unwrap_or("").split(':').next().unwrap_or("").to_string();
            let key = format!("rust:free-running:miri:{}:{}", kind, file);
            record(&key, format!("free-running threads under miri (seed {}): {} {}", seed, line, site), json!({"property": prop, "engine": "sched/miri", "subject": "miri", "seed": seed, "check": key}));
            return;
        }
        // anything else (toolchain or sysroot trouble) is not a verdict
        rep.cap(&format!("miri pass not completed: {}", text.lines().rev().find(|l| !l.trim().is_empty()).unwrap_or("").chars().take(160).collect::<String>()));
        return;
    }
}
