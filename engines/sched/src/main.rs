//! vsched - C08 (multithreaded hashing is deterministic under every schedule) and C18 (independent
//! instances are isolated), by exhaustive exploration of orders and interleavings of the real code
//! under a controlled scheduler (loom). loom only sees its own types, so every seam the code
//! already has is turned into a scheduling point by a loom atomic RMW performed there: entry and
//! exit of the join, entry of every kernel dispatcher (Rust hook H2; C: blake3.c's kernel calls are
//! redirected to harness functions), and the C feature-cache load/store (hook H5).
mod cside;
mod rust_side;

use std::sync::atomic::{AtomicPtr, AtomicU64, AtomicUsize, Ordering};
use vcommon::serde_json::Value;
use vcommon::{Args, Report};

/// The scheduling atomic of the loom execution in progress (null outside a model).
pub static POINT: AtomicPtr<loom::sync::atomic::AtomicUsize> = AtomicPtr::new(std::ptr::null_mut());
pub static YIELDS: AtomicU64 = AtomicU64::new(0);
pub static SCHEDULES: AtomicU64 = AtomicU64::new(0);

/// A scheduling point: every thread that reaches one performs an RMW on the same loom atomic, so
/// loom treats all points as dependent and explores every order of them (within its bounds).
pub fn yield_point() {
    let p = POINT.load(Ordering::SeqCst);
    if !p.is_null() {
        YIELDS.fetch_add(1, Ordering::Relaxed);
        unsafe { (*p).fetch_add(1, loom::sync::atomic::Ordering::SeqCst) };
    }
}

/// Run `body` under loom with the given preemption bound; `body` runs once per schedule.
/// Wall-clock cap per loom model (seconds); a model that hits it is reported as not exhaustive.
pub static MODEL_CAP_S: AtomicU64 = AtomicU64::new(3600);
pub static CAPPED_MODELS: AtomicU64 = AtomicU64::new(0);
pub static NONDET_MODELS: AtomicU64 = AtomicU64::new(0);

/// Overall wall-clock budget of the current phase: models that would start after it are skipped
/// (and counted), never silently.
pub static PHASE_DEADLINE: std::sync::Mutex<Option<std::time::Instant>> = std::sync::Mutex::new(None);
pub static SKIPPED_MODELS: AtomicU64 = AtomicU64::new(0);

pub fn set_phase_budget(secs: u64) {
    *PHASE_DEADLINE.lock().unwrap() = Some(std::time::Instant::now() + std::time::Duration::from_secs(secs));
}

pub fn explore(preemption_bound: Option<usize>, max_branches: usize, body: impl Fn() + Sync + Send + 'static) -> u64 {
    if let Some(d) = *PHASE_DEADLINE.lock().unwrap() {
        if std::time::Instant::now() > d {
            SKIPPED_MODELS.fetch_add(1, Ordering::SeqCst);
            return 0;
        }
    }
    let before = SCHEDULES.load(Ordering::SeqCst);
    let mut b = loom::model::Builder::new();
    b.preemption_bound = preemption_bound;
    b.max_branches = max_branches;
    b.max_threads = 5;
    let cap = MODEL_CAP_S.load(Ordering::SeqCst);
    b.max_duration = Some(std::time::Duration::from_secs(cap));
    let t0 = std::time::Instant::now();
    let r = explore_inner(b, body);
    if t0.elapsed().as_secs() >= cap {
        CAPPED_MODELS.fetch_add(1, Ordering::SeqCst);
    }
    let _ = r;
    if std::env::var("VERIF_SCHED_VERBOSE").is_ok() {
        eprintln!("[model] bound {:?}: {} schedules in {:.1}s", preemption_bound, SCHEDULES.load(Ordering::SeqCst) - before, t0.elapsed().as_secs_f64());
    }
    SCHEDULES.load(Ordering::SeqCst) - before
}

/// Iterative context bounding: the model is first explored completely with at most one preemption;
/// it is explored again with `target` preemptions if it is small enough at bound 1 (`small_at_1`
/// schedules; None = always). The bound completed for every model is counted in the evidence.
pub static MODELS_AT_BOUND_1_ONLY: AtomicU64 = AtomicU64::new(0);
pub static MODELS_AT_TARGET_BOUND: AtomicU64 = AtomicU64::new(0);
pub static MODELS_AT_BOUND_2_ONLY: AtomicU64 = AtomicU64::new(0);

pub fn explore_iterative(target: usize, small_at_1: Option<u64>, max_branches: usize, body: impl Fn() + Sync + Send + 'static) -> u64 {
    let body = std::sync::Arc::new(body);
    let b1 = body.clone();
    let n1 = explore(Some(1), max_branches, move || b1());
    if target <= 1 {
        MODELS_AT_TARGET_BOUND.fetch_add(1, Ordering::SeqCst);
        return n1;
    }
    if let Some(limit) = small_at_1 {
        if n1 > limit {
            MODELS_AT_BOUND_1_ONLY.fetch_add(1, Ordering::SeqCst);
            return n1;
        }
    }
    // bound 2 next; a higher target only if the model is still small at bound 2 (otherwise one large
    // model would use up the budget of the phase and later models would not even get their bound 1)
    let b2 = body.clone();
    let n2 = explore(Some(target.min(2)), max_branches, move || b2());
    if target <= 2 {
        MODELS_AT_TARGET_BOUND.fetch_add(1, Ordering::SeqCst);
        return n1 + n2;
    }
    if n2 > 4000 {
        MODELS_AT_BOUND_2_ONLY.fetch_add(1, Ordering::SeqCst);
        return n1 + n2;
    }
    let b3 = body.clone();
    let n3 = explore(Some(target), max_branches, move || b3());
    MODELS_AT_TARGET_BOUND.fetch_add(1, Ordering::SeqCst);
    n1 + n2 + n3
}

fn explore_inner(b: loom::model::Builder, body: impl Fn() + Sync + Send + 'static) -> u64 {
    let before = SCHEDULES.load(Ordering::SeqCst);
    let r = std::panic::catch_unwind(std::panic::AssertUnwindSafe(move || b.check(move || {
        SCHEDULES.fetch_add(1, Ordering::SeqCst);
        // process-global state of the crate (statics behind the sync shims) starts every execution afresh
        vshim::reset_statics();
        vshim::reset_thread_locals();
        let a = loom::sync::Arc::new(loom::sync::atomic::AtomicUsize::new(0));
        POINT.store(loom::sync::Arc::as_ptr(&a) as *mut _, Ordering::SeqCst);
        body();
        POINT.store(std::ptr::null_mut(), Ordering::SeqCst);
        drop(a);
    })));
    POINT.store(std::ptr::null_mut(), Ordering::SeqCst);
    if let Err(e) = r {
        let msg = e.downcast_ref::<String>().cloned().or_else(|| e.downcast_ref::<&str>().map(|s| s.to_string())).unwrap_or_default();
        if msg.contains("fully deterministic") {
            // state the explorer cannot reset (not behind a sync shim) outlived an execution: this model's
            // exploration is incomplete; it is reported as a cap, never as a verdict
            NONDET_MODELS.fetch_add(1, Ordering::SeqCst);
        } else if msg.contains("exceeded") {
            CAPPED_MODELS.fetch_add(1, Ordering::SeqCst);
        } else {
            std::panic::resume_unwind(e);
        }
    }
    SCHEDULES.load(Ordering::SeqCst) - before
}

/// Spawn a loom thread with a real stack (the default coroutine stack is far too small for hashing).
pub fn spawn_big<F: FnOnce() + Send + 'static>(f: F) -> loom::thread::JoinHandle<()> {
    loom::thread::Builder::new().stack_size(4 << 20).spawn(f).expect("loom spawn")
}

/// Erase the lifetime of a borrowed closure so that it can run on a loom thread that is joined
/// before the borrow ends (what scoped threads / rayon::join do).
pub unsafe fn erase<'a>(f: &'a mut (dyn FnMut() + Send + 'a)) -> &'static mut (dyn FnMut() + Send + 'static) {
    std::mem::transmute(f)
}

pub static VIOLATIONS: std::sync::Mutex<Vec<(String, String, Value)>> = std::sync::Mutex::new(Vec::new());

pub fn record(key: &str, what: String, case: Value) {
    let mut v = VIOLATIONS.lock().unwrap();
    if v.iter().filter(|x| x.0 == key).count() < 3 {
        // also on disk at once: if the subject takes the process down later, the supervisor still has it
        if let Ok(p) = std::env::var("VERIF_SCHED_CUR") {
            use std::io::Write;
            if let Ok(mut f) = std::fs::OpenOptions::new().create(true).append(true).open(format!("{}.viol", p)) {
                let _ = writeln!(f, "{}", vcommon::serde_json::json!({"key": key, "summary": what, "replay": case}));
            }
        }
        v.push((key.to_string(), what, case));
    }
}

pub fn drain_into(rep: &mut Report) {
    let mut v = VIOLATIONS.lock().unwrap();
    for (k, w, c) in v.drain(..) {
        rep.violation(&k, w, c);
    }
}

pub static LEVEL: AtomicUsize = AtomicUsize::new(usize::MAX);

fn main() {
    let args = Args::parse();
    vcommon::silence_panics();
    if let Err(e) = b3spec::self_check() {
        eprintln!("ORACLE-ANCHOR-FAILED: {}", e);
        std::process::exit(2);
    }
    rust_side::install_hooks();
    if args.extra.get("child").map(|s| s.as_str()) == Some("pooltasks") {
        rust_side::pool_tasks_child();
        return;
    }
    if args.extra.get("child").map(|s| s.as_str()) == Some("fresh") {
        rust_side::fresh_process_child();
        return;
    }
    if let Some(path) = &args.replay {
        let text = std::fs::read_to_string(path).expect("replay file");
        let v: Value = vcommon::serde_json::from_str(&text).expect("replay json");
        // scenarios are small and deterministic: re-run the property's quick exploration (supervised, in a
        // child process, like the original run) and look for the same key
        let tmp = "/verif/out/sched-replay.json".to_string();
        let _ = std::fs::remove_file(&tmp);
        let st = std::process::Command::new(std::env::current_exe().unwrap())
            .args(["--prop", &args.prop, "--tier", "quick", "--seed", &args.seed.to_string(), "--report", &tmp])
            .status()
            .expect("spawn replay run");
        let mut hit = false;
        if st.success() {
            if let Ok(t) = std::fs::read_to_string(&tmp) {
                if let Ok(r) = vcommon::serde_json::from_str::<Value>(&t) {
                    for x in r["violations"].as_array().cloned().unwrap_or_default().iter().take(3) {
                        println!("violation {}: {}", x["key"].as_str().unwrap_or(""), x["summary"].as_str().unwrap_or(""));
                    }
                    // what a corrupted process does next varies from run to run (wrong result, crash, hang):
                    // the members of that family reproduce one another
                    let family = |k: &str| k.contains("isolation:") || k.contains("schedule-dependent") || k.contains("order-dependent");
                    let want = v["check"].as_str().unwrap_or("");
                    hit = r["violations"].as_array().map(|a| a.iter().any(|x| {
                        let k = x["key"].as_str().unwrap_or("");
                        k == want || (family(k) && family(want))
                    })).unwrap_or(false);
                }
            }
        }
        println!("{}", if hit { "REPRODUCED" } else { "NOT-REPRODUCED" });
        std::process::exit(if hit { 1 } else { 0 });
    }
    if !args.extra.contains_key("supervised") {
        // The exploration runs in a child process: the subject executes inside the explorer's process,
        // and a subject that corrupts memory under some interleaving takes the process down with it.
        // The parent turns that into a verdict (the child names the model it is exploring in a side file).
        let cur = format!("{}.cur", args.report);
        let _ = std::fs::remove_file(&cur);
        let _ = std::fs::remove_file(format!("{}.viol", cur));
        let _ = std::fs::remove_file(&args.report);
        let mut child = std::process::Command::new(std::env::current_exe().unwrap())
            .args(std::env::args().skip(1))
            .args(["--supervised", "1"])
            .env("VERIF_SCHED_CUR", &cur)
            .spawn()
            .expect("spawn supervised child");
        // the engine has its own budgets (2 x 120 s quick, 2 x 600 s thorough, plus the sampling lanes);
        // far beyond them the child is stuck
        let limit = std::time::Duration::from_secs(if args.thorough() { 3 * 3600 } else { 300 });
        let t0 = std::time::Instant::now();
        let st = loop {
            match child.try_wait().expect("wait") {
                Some(st) => break st,
                None if t0.elapsed() > limit => {
                    let _ = child.kill();
                    let _ = child.wait();
                    let what = std::fs::read_to_string(&cur).unwrap_or_default();
                    let mut rep = Report::new(&args, "sched", "model_checking");
                    rep.inc("evaluations");
                    rep.inc("states");
                    rep.inc("transitions");
                    recorded_before_death(&cur, &mut rep);
                    let key = "isolation:exploration-never-finishes";
                    rep.violation(key, format!("the exploration did not finish within {} s (stuck while exploring: {})", limit.as_secs(), what.trim()),
                        vcommon::serde_json::json!({"property": args.prop, "engine": "sched", "check": key, "model": what.trim()}));
                    rep.cap("the exploration was killed at the supervisor's wall-clock limit");
                    rep.write(&args.report);
                    let _ = std::fs::remove_file(&cur);
                    return;
                }
                None => std::thread::sleep(std::time::Duration::from_millis(100)),
            }
        };
        if st.success() && std::path::Path::new(&args.report).exists() {
            let _ = std::fs::remove_file(&cur);
            let _ = std::fs::remove_file(format!("{}.viol", cur));
            return;
        }
        use std::os::unix::process::ExitStatusExt;
        match st.signal() {
            Some(sig) => {
                let what = std::fs::read_to_string(&cur).unwrap_or_default();
                let mut rep = Report::new(&args, "sched", "model_checking");
                rep.inc("evaluations");
                rep.inc("states");
                rep.inc("transitions");
                recorded_before_death(&cur, &mut rep);
                let key = "isolation:crash-under-exploration";
                rep.violation(key, format!("the process is killed by signal {} while exploring: {}", sig, what.trim()),
                    vcommon::serde_json::json!({"property": args.prop, "engine": "sched", "check": key, "model": what.trim(), "signal": sig}));
                rep.cap("the exploration ended when the subject crashed");
                rep.write(&args.report);
                let _ = std::fs::remove_file(&cur);
            }
            None => std::process::exit(st.code().unwrap_or(2)),
        }
        return;
    }
    let mut rep = Report::new(&args, "sched", "model_checking");
    run(&args, &mut rep);
    rep.write(&args.report);
}

/// Violations the child recorded before it died.
fn recorded_before_death(cur: &str, rep: &mut Report) {
    if let Ok(t) = std::fs::read_to_string(format!("{}.viol", cur)) {
        for line in t.lines() {
            if let Ok(x) = vcommon::serde_json::from_str::<Value>(line) {
                rep.violation(x["key"].as_str().unwrap_or("?"), x["summary"].as_str().unwrap_or("").to_string(), x["replay"].clone());
            }
        }
    }
    let _ = std::fs::remove_file(format!("{}.viol", cur));
}

/// Name the model about to be explored (read by the supervising parent if the process dies).
pub fn set_current(what: &str) {
    if let Ok(p) = std::env::var("VERIF_SCHED_CUR") {
        let _ = std::fs::write(p, what);
    }
}

fn run(args: &Args, rep: &mut Report) {
    MODEL_CAP_S.store(if args.thorough() { 120 } else { 120 }, Ordering::SeqCst);
    match args.prop.as_str() {
        "C08" => {
            set_phase_budget(if args.thorough() { 600 } else { 120 });
            rust_side::c08(args, rep);
            set_phase_budget(if args.thorough() { 600 } else { 120 });
            cside::c08(args, rep);
            rep.rule = "update_with_join driven through the scripted Join (hook H3) and blake3_hasher_update_tbb through the scripted parallel_invoke (stand-in header, real blake3_tbb.cpp): (1) every assignment of {left-first, right-first} to the internal nodes of the split tree; (2) every choice of up to 2 (quick) / 3 (thorough) concurrent nodes, all interleavings of the scheduling points (join entry/exit, every kernel entry) under a preemption bound; after every execution the complete hasher state and the outputs must equal single-threaded update and the spec; (3) real rayon pools of 1..16 threads (sampling, labelled so) and a free-running ThreadSanitizer pass on the C side; states = distinct executions (order assignments + schedules); non-trivial = executions with at least one right-first or concurrent node".into();
            rep.assumptions.push("interleavings inside one kernel call and weak-memory effects on plain accesses are not explored (race detector passes only)".into());
            rep.assumptions.push("oneTBB is replaced by a stand-in parallel_invoke; real TBB scheduling is out of reach".into());
        }
        "C18" => {
            set_phase_budget(if args.thorough() { 600 } else { 120 });
            rust_side::c18(args, rep);
            set_phase_budget(if args.thorough() { 600 } else { 120 });
            cside::c18(args, rep);
            rep.rule = "two and three controlled threads, each running a complete operation sequence (incremental hashing, extended output with seeks, one-shot calls; C: init/update/finalize_seek) on its own instances, interleaved at every kernel entry - and, on the C side, at every load and store of the feature cache, starting from UNDEFINED so that detection itself races - all interleavings by iterative context bounding: every model completely with at most 1 preemption, then with 2 - in the quick tier only for models of at most 110 schedules at bound 1, in the thorough tier for all - and in the thorough tier pairs of threads with 3 where the model has at most 4000 schedules at bound 2; kernel entries *and returns* are scheduling points; the Rust side runs on a copy of the crate's source in which every core::sync / std::sync atomic, lock and once-cell operation is a scheduling point as well; every thread's results must equal its results when run alone; on the Rust side every Platform::detect() call is additionally an environment choice that may answer any level up to the best one (all answer sequences with <= 2 deviations); plus N=16 real threads as the first calls of fresh processes, and twelve tasks of one rayon pool calling update_rayon on their own hashers at the same time in a child process with a 60 s limit (both sampling, labelled so); states = distinct schedules / answer sequences; non-trivial = executions with >= 1 context switch or deviation".into();
            rep.assumptions.push("the cpufeatures crate's own atomics are not intercepted; they are over-approximated by letting detect() answer any level".into());
        }
        _ => {
            eprintln!("vsched does not serve {}", args.prop);
            std::process::exit(2);
        }
    }
    drain_into(rep);
    let capped = CAPPED_MODELS.load(Ordering::SeqCst);
    if capped > 0 {
        rep.cap(&format!("{} loom model(s) stopped at the per-model wall-clock cap of {} s (their schedule spaces were explored only partially)", capped, MODEL_CAP_S.load(Ordering::SeqCst)));
    }
    let nondet = NONDET_MODELS.load(Ordering::SeqCst);
    if nondet > 0 {
        rep.cap(&format!("{} loom model(s) abandoned: executions were not reproducible (process-global state that the explorer cannot reset outlives an execution)", nondet));
    }
    rep.add("loom_models_nondeterministic", nondet);
    rep.add("crate_statics_reset_between_executions", vshim::STATICS_SEEN.load(Ordering::SeqCst));
    rep.add("crate_thread_locals_virtualised", vshim::THREAD_LOCALS_SEEN.load(Ordering::SeqCst));
    let skipped = SKIPPED_MODELS.load(Ordering::SeqCst);
    if skipped > 0 {
        rep.cap(&format!("{} loom model(s) not started: the phase's wall-clock budget was used up (models are ordered smallest first)", skipped));
    }
    rep.add("loom_models_completed_at_target_preemption_bound", MODELS_AT_TARGET_BOUND.load(Ordering::SeqCst));
    rep.add("loom_models_completed_at_preemption_bound_1_only", MODELS_AT_BOUND_1_ONLY.load(Ordering::SeqCst));
    rep.add("loom_models_completed_at_preemption_bound_2_only", MODELS_AT_BOUND_2_ONLY.load(Ordering::SeqCst));
    rep.add("loom_models_skipped", skipped);
    rep.add("loom_models_capped", capped);
    rep.add("crate_sync_ops_as_scheduling_points", vshim::OPS.load(Ordering::SeqCst));
    if let Ok(t) = std::fs::read_to_string("/verif/target/sched-src/instrument.json") {
        rep.notes.push(format!("instrumented copy of the crate (core::sync / std::sync -> scheduling points): {}", t.split_whitespace().collect::<Vec<_>>().join(" ")));
    }
    rep.add("schedules", SCHEDULES.load(Ordering::SeqCst));
    rep.add("scheduling_points_executed", YIELDS.load(Ordering::SeqCst));
    let st = rep.get("states");
    rep.counters.insert("traces_validated_against_impl".into(), st);
}
