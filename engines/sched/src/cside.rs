//! C side of C08 / C18: blake3.c built with BLAKE3_USE_TBB and the real c/blake3_tbb.cpp, whose
//! parallel_invoke (stand-in header) calls back into the same scripted join; blake3.c's kernel
//! calls and blake3_dispatch.c's feature-cache accesses are scheduling points.
use crate::rust_side::{ctl, scripted_join, Mode};
use crate::{explore, record, spawn_big, yield_point};
use std::collections::HashMap;
use std::ffi::c_void;
use vcommon::serde_json::{json, Value};
use vcommon::{Args, Report};

#[repr(C)]
#[derive(Clone, Copy)]
pub struct ChunkState {
    pub cv: [u32; 8],
    pub chunk_counter: u64,
    pub buf: [u8; 64],
    pub buf_len: u8,
    pub blocks_compressed: u8,
    pub flags: u8,
}

#[repr(C)]
#[derive(Clone, Copy)]
pub struct Hasher {
    pub key: [u32; 8],
    pub chunk: ChunkState,
    pub cv_stack_len: u8,
    pub cv_stack: [u8; 55 * 32],
}

extern "C" {
    fn blake3_hasher_init(h: *mut Hasher);
    fn blake3_hasher_init_keyed(h: *mut Hasher, key: *const u8);
    fn blake3_hasher_init_derive_key_raw(h: *mut Hasher, context: *const c_void, len: usize);
    fn blake3_hasher_update(h: *mut Hasher, input: *const c_void, len: usize);
    fn blake3_hasher_update_tbb(h: *mut Hasher, input: *const c_void, len: usize);
    fn blake3_hasher_finalize_seek(h: *const Hasher, seek: u64, out: *mut u8, out_len: usize);
    // the real dispatchers (blake3_dispatch.c)
    fn blake3_hash_many(inputs: *const *const u8, num_inputs: usize, blocks: usize, key: *const u32, counter: u64, inc: bool, flags: u8, fs: u8, fe: u8, out: *mut u8);
    fn blake3_compress_in_place(cv: *mut u32, block: *const u8, block_len: u8, counter: u64, flags: u8);
    fn blake3_compress_xof(cv: *const u32, block: *const u8, block_len: u8, counter: u64, flags: u8, out: *mut u8);
    fn blake3_xof_many(cv: *const u32, block: *const u8, block_len: u8, counter: u64, flags: u8, out: *mut u8, outblocks: usize);
    fn verif_features_cell() -> *mut i32;
    fn verif_sizeof_hasher() -> usize;
}

// --- functions the C library calls back into ------------------------------------------------------

#[no_mangle]
pub unsafe extern "C" fn verif_hash_many(inputs: *const *const u8, num_inputs: usize, blocks: usize, key: *const u32, counter: u64, inc: bool, flags: u8, fs: u8, fe: u8, out: *mut u8) {
    yield_point();
    blake3_hash_many(inputs, num_inputs, blocks, key, counter, inc, flags, fs, fe, out);
    // ... and when the kernel has returned: what the caller does with the output is a separate step
    yield_point();
}

#[no_mangle]
pub unsafe extern "C" fn verif_compress_in_place(cv: *mut u32, block: *const u8, block_len: u8, counter: u64, flags: u8) {
    yield_point();
    blake3_compress_in_place(cv, block, block_len, counter, flags);
    // ... and when the kernel has returned: what the caller does with the output is a separate step
    yield_point();
}

#[no_mangle]
pub unsafe extern "C" fn verif_compress_xof(cv: *const u32, block: *const u8, block_len: u8, counter: u64, flags: u8, out: *mut u8) {
    yield_point();
    blake3_compress_xof(cv, block, block_len, counter, flags, out);
    // ... and when the kernel has returned: what the caller does with the output is a separate step
    yield_point();
}

#[no_mangle]
pub unsafe extern "C" fn verif_xof_many(cv: *const u32, block: *const u8, block_len: u8, counter: u64, flags: u8, out: *mut u8, outblocks: usize) {
    yield_point();
    blake3_xof_many(cv, block, block_len, counter, flags, out, outblocks);
    // ... and when the kernel has returned: what the caller does with the output is a separate step
    yield_point();
}

/// Hook H5: the feature cache's load and store are scheduling points.
#[no_mangle]
pub unsafe extern "C" fn blake3_verif_atomic_load(cell: *mut i32) -> i32 {
    yield_point();
    std::ptr::read_volatile(cell)
}

#[no_mangle]
pub unsafe extern "C" fn blake3_verif_atomic_store(cell: *mut i32, value: i32) {
    yield_point();
    std::ptr::write_volatile(cell, value)
}

struct SendPtr(*mut c_void);
unsafe impl Send for SendPtr {}

/// The stand-in oneapi::tbb::parallel_invoke lands here.
#[no_mangle]
pub unsafe extern "C" fn verif_parallel_invoke(left: extern "C" fn(*mut c_void), lctx: *mut c_void, right: extern "C" fn(*mut c_void), rctx: *mut c_void) {
    let (l, r) = (SendPtr(lctx), SendPtr(rctx));
    let mut a = move || {
        let l = &l;
        left(l.0)
    };
    let mut b = move || {
        let r = &r;
        right(r.0)
    };
    scripted_join(&mut a, &mut b);
}

const UNDEFINED: i32 = 1 << 30;
const MASKS: [(&str, i32); 5] = [("portable", 0), ("sse2", 1), ("sse41", 1 | 2 | 4), ("avx2", 1 | 2 | 4 | 8 | 16), ("avx512", 1 | 2 | 4 | 8 | 16 | 32 | 64)];

fn set_features(f: i32) {
    unsafe { std::ptr::write_volatile(verif_features_cell(), f) }
}
fn get_features() -> i32 {
    unsafe { std::ptr::read_volatile(verif_features_cell()) }
}

fn real_mask() -> i32 {
    set_features(UNDEFINED);
    let mut h: Hasher = unsafe { std::mem::zeroed() };
    unsafe {
        blake3_hasher_init(&mut h);
        let d = [0u8; 2048];
        blake3_hasher_update(&mut h, d.as_ptr() as *const _, d.len());
    }
    get_features()
}

fn masks() -> Vec<(&'static str, i32)> {
    let real = real_mask();
    MASKS.iter().copied().filter(|m| real & m.1 == m.1).collect()
}

fn live(h: &Hasher) -> Vec<u8> {
    let mut out = vec![];
    for w in h.key {
        out.extend_from_slice(&w.to_le_bytes());
    }
    for w in h.chunk.cv {
        out.extend_from_slice(&w.to_le_bytes());
    }
    out.extend_from_slice(&h.chunk.chunk_counter.to_le_bytes());
    out.extend_from_slice(&h.chunk.buf);
    out.push(h.chunk.buf_len);
    out.push(h.chunk.blocks_compressed);
    out.push(h.chunk.flags);
    out.push(h.cv_stack_len);
    out.extend_from_slice(&h.cv_stack[..32 * (h.cv_stack_len as usize).min(55)]);
    out
}

fn degree(name: &str) -> usize {
    match name {
        "portable" => 1,
        "sse2" | "sse41" => 4,
        "avx2" => 8,
        _ => 16,
    }
}

#[derive(Clone, Debug)]
struct Scn {
    lname: &'static str,
    mask: i32,
    prefix: usize,
    len: usize,
}

fn run_scn(s: &Scn, data: &[u8], tbb: bool) -> (Vec<u8>, Vec<u8>) {
    unsafe {
        let mut h: Hasher = std::mem::zeroed();
        blake3_hasher_init_keyed(&mut h, vcommon::TEST_KEY.as_ptr());
        blake3_hasher_update(&mut h, data.as_ptr() as *const _, s.prefix);
        if tbb {
            blake3_hasher_update_tbb(&mut h, data[s.prefix..].as_ptr() as *const _, s.len);
        } else {
            blake3_hasher_update(&mut h, data[s.prefix..].as_ptr() as *const _, s.len);
        }
        let mut out = vec![0u8; 64];
        blake3_hasher_finalize_seek(&h, 0, out.as_mut_ptr(), 64);
        (live(&h), out)
    }
}

fn case(s: &Scn, assign: &HashMap<String, Mode>, key: &str) -> Value {
    let mut a: Vec<(String, String)> = assign.iter().map(|(k, v)| (if k.is_empty() { "root".to_string() } else { k.clone() }, format!("{:?}", v))).collect();
    a.sort();
    json!({"property": "C08", "engine": "sched/c", "subject": "blake3_hasher_update_tbb", "level": s.lname, "prefix": s.prefix, "len": s.len, "assignment": a, "check": key})
}

fn subsets(n: usize, maxk: usize) -> Vec<Vec<usize>> {
    (1u32..(1u32 << n)).filter(|m| (m.count_ones() as usize) <= maxk).map(|m| (0..n).filter(|i| m & (1 << i) != 0).collect()).collect()
}

pub fn c08(args: &Args, rep: &mut Report) {
    if unsafe { verif_sizeof_hasher() } != std::mem::size_of::<Hasher>() {
        eprintln!("blake3_hasher layout differs from the harness mirror");
        std::process::exit(2);
    }
    let t = args.thorough();
    let data = std::sync::Arc::new(vcommon::stream_b(args.seed ^ 0xC, 200 * 1024));
    for (lname, mask) in masks() {
        let d = degree(lname);
        let groups: &[usize] = if t { &[2, 3, 4, 5, 7, 8] } else { &[2, 3, 4, 8] };
        for &g in groups {
            for (prefix, tail) in [(0usize, 0usize), (1, 100), (d * 1024, 0)] {
                if !t && g == 8 && prefix != 0 {
                    continue;
                }
                let s = Scn { lname, mask, prefix, len: g * d * 1024 + tail };
                set_features(mask);
                let exp = run_scn(&s, &data, false);
                let spec = b3spec::xof(&b3spec::Mode::keyed(vcommon::TEST_KEY), &data[..s.prefix + s.len], 0, 64);
                rep.inc("evaluations");
                rep.inc("spec_comparisons");
                if exp.1 != spec {
                    record("c:update:differs-from-spec", format!("blake3_hasher_update differs from the spec for {:?}", s), case(&s, &HashMap::new(), "c:update:differs-from-spec"));
                    continue;
                }
                ctl(|c| {
                    c.assign.clear();
                    c.reset_run();
                });
                let r0 = run_scn(&s, &data, true);
                let nodes: Vec<String> = ctl(|c| {
                    let mut v = c.seen.clone();
                    v.sort();
                    v.dedup();
                    v
                });
                if r0 != exp {
                    record("c:update_tbb(serial):differs-from-update", format!("update_tbb with the serial script differs from update for {:?}", s), case(&s, &HashMap::new(), "c:update_tbb(serial):differs-from-update"));
                    continue;
                }
                let k = nodes.len();
                rep.max("max_join_nodes_c", k as u64);
                if k == 0 || k > 7 {
                    continue;
                }
                for m in 0u32..(1u32 << k) {
                    let assign: HashMap<String, Mode> = nodes.iter().enumerate().map(|(i, n)| (n.clone(), if m & (1 << i) != 0 { Mode::RL } else { Mode::LR })).collect();
                    ctl(|c| {
                        c.assign = assign.clone();
                        c.reset_run();
                    });
                    let r = run_scn(&s, &data, true);
                    rep.inc("evaluations");
                    rep.inc("states");
                    rep.add("transitions", k as u64);
                    rep.inc("order_assignments_c");
                    if m != 0 {
                        rep.inc("distinct_nontrivial");
                    }
                    if r != exp {
                        record("c:update_tbb:order-dependent", format!("{} update_tbb of {}+{} bytes differs under order assignment {:#b} of nodes {:?}", lname, s.prefix, s.len, m, nodes), case(&s, &assign, "c:update_tbb:order-dependent"));
                    }
                }
                let bound = if t { 3 } else { 2 };
                for set in subsets(k, if k > 3 && !t { 1 } else if t { 3 } else { 2 }) {
                    let assign: HashMap<String, Mode> = nodes.iter().enumerate().map(|(i, n)| (n.clone(), if set.contains(&i) { Mode::Conc } else { Mode::LR })).collect();
                    let (s2, d2, e2, a2) = (s.clone(), data.clone(), exp.clone(), assign.clone());
                    crate::set_current(&format!("C library, blake3_hasher_update_tbb {:?} with concurrent nodes {:?}", s, set));
                    let n = crate::explore_iterative(if set.len() >= 3 { 2 } else { bound }, if t { None } else { Some(60) }, 20_000, move || {
                        ctl(|c| {
                            c.assign = a2.clone();
                            c.reset_run();
                        });
                        let (s3, d3, e3, a3) = (s2.clone(), d2.clone(), e2.clone(), a2.clone());
                        let w = spawn_big(move || {
                            let r = run_scn(&s3, &d3, true);
                            if r != e3 {
                                record("c:update_tbb:schedule-dependent", format!("{} blake3_hasher_update_tbb of {}+{} bytes gives a different state/output under some interleaving with concurrent nodes {:?}", s3.lname, s3.prefix, s3.len, a3.iter().filter(|x| *x.1 == Mode::Conc).map(|x| x.0.clone()).collect::<Vec<_>>()), case(&s3, &a3, "c:update_tbb:schedule-dependent"));
                            }
                        });
                        w.join().expect("worker");
                    });
                    rep.add("evaluations", n);
                    rep.add("states", n);
                    rep.add("transitions", n);
                    rep.add("distinct_nontrivial", n);
                    rep.inc("loom_models");
                }
            }
        }
    }
    ctl(|c| {
        c.assign.clear();
        c.reset_run();
    });
    tsan_pass(rep);
    rep.sample(json!({"side": "c", "entry": "blake3_hasher_update_tbb", "seam": "c/blake3_tbb.cpp via stand-in parallel_invoke", "scheduling_points": ["parallel_invoke entry/exit", "blake3_hash_many / compress_in_place as called from blake3.c"]}));
}

/// Free-running race pass: blake3.c (TBB seam on), dispatch and portable code under
/// ThreadSanitizer with a parallel_invoke that really uses two threads.
fn tsan_pass(rep: &mut Report) {
    let c = "/repo/c";
    let dir = "/verif/target/tsan";
    let _ = std::fs::create_dir_all(dir);
    let exe = format!("{}/tsan_driver", dir);
    let root = concat!(env!("CARGO_MANIFEST_DIR"), "/../..");
    let inc = format!("{}/shims/tbb_threads", root);
    let driver = concat!(env!("CARGO_MANIFEST_DIR"), "/csrc/tsan_driver.c");
    let cflags = ["-fsanitize=thread", "-g", "-O1", "-DBLAKE3_USE_TBB", "-DBLAKE3_NO_SSE2", "-DBLAKE3_NO_SSE41", "-DBLAKE3_NO_AVX2", "-DBLAKE3_NO_AVX512", "-I", c];
    let mut objs = vec![];
    for (src, cpp) in [(format!("{}/blake3.c", c), false), (format!("{}/blake3_dispatch.c", c), false), (format!("{}/blake3_portable.c", c), false), (format!("{}/blake3_tbb.cpp", c), true), (driver.to_string(), false)] {
        let obj = format!("{}/{}.o", dir, std::path::Path::new(&src).file_name().unwrap().to_string_lossy().replace('.', "_"));
        let mut cmd = std::process::Command::new(if cpp { "clang++" } else { "clang" });
        cmd.args(cflags);
        if cpp {
            cmd.args(["-std=c++17", "-fno-exceptions", "-fno-rtti", "-I", &inc]);
        } else {
            cmd.arg("-std=c11");
        }
        let out = cmd.args(["-c", &src, "-o", &obj]).output();
        match out {
            Ok(o) if o.status.success() => objs.push(obj),
            Ok(o) => {
                eprintln!("tsan build failed for {}: {}", src, String::from_utf8_lossy(&o.stderr));
                std::process::exit(2);
            }
            Err(e) => {
                eprintln!("clang not runnable: {}", e);
                std::process::exit(2);
            }
        }
    }
    let link = std::process::Command::new("clang++").args(["-fsanitize=thread"]).args(&objs).args(["-lpthread", "-o", &exe]).output().expect("link");
    if !link.status.success() {
        eprintln!("tsan link failed: {}", String::from_utf8_lossy(&link.stderr));
        std::process::exit(2);
    }
    let out = std::process::Command::new(&exe).env("TSAN_OPTIONS", "halt_on_error=1:exitcode=66:report_signal_unsafe=0").output().expect("run tsan driver");
    let stdout = String::from_utf8_lossy(&out.stdout).to_string();
    let stderr = String::from_utf8_lossy(&out.stderr).to_string();
    rep.inc("tsan_runs");
    if let Some(l) = stdout.lines().find(|l| l.starts_with("TSAN-DRIVER-OK")) {
        let n: u64 = l.split("rounds=").nth(1).and_then(|s| s.trim().parse().ok()).unwrap_or(0);
        rep.add("evaluations", n);
        rep.add("tsan_rounds_sampled", n);
    }
    if !out.status.success() {
        let first = stderr.lines().find(|l| l.contains("WARNING: ThreadSanitizer") || l.contains("MISMATCH")).unwrap_or_else(|| stdout.lines().last().unwrap_or("")).to_string();
        let site = stderr.lines().filter(|l| l.trim_start().starts_with('#') && l.contains("/repo/c/")).next().map(|l| l.trim().to_string()).unwrap_or_default();
        let kind = if first.contains("ThreadSanitizer") { "data-race" } else { "mismatch" };
        let file = site.rsplit('/').next().unwrap_or("").split(':').next().unwrap_or("").to_string();
        let key = format!("c:update_tbb:free-running:{}:{}", kind, file);
        record(&key, format!("free-running blake3_hasher_update_tbb under ThreadSanitizer: {} | {}", first, site), json!({"property": "C08", "engine": "sched/c", "subject": "tsan", "check": key}));
    }
}

// ------------------------------------------------------------------------------------------------
// C18, C side

const NCSEQ: usize = 7;

fn long_context(which: usize) -> Vec<u8> {
    (0..1100 + 7 * which).map(|i| (b'a' + ((i * (3 + which) + i / 11) % 26) as u8)).collect()
}

fn c_sizes() -> (usize, usize, usize) {
    // (seq 0 first update, seq 0 second update, seq 1 update)
    if crate::rust_side::HEAVY.load(std::sync::atomic::Ordering::SeqCst) { (3000, 6000, 6000) } else { (1500, 2500, 3000) }
}

fn c_sequence(which: usize, data: &[u8]) -> Vec<u8> {
    let (s0a, s0b, s1) = c_sizes();
    unsafe {
        let mut h: Hasher = std::mem::zeroed();
        let mut out = vec![0u8; 150];
        match which % NCSEQ {
            3 => {
                blake3_hasher_init(&mut h);
                blake3_hasher_update(&mut h, data.as_ptr() as *const _, 1025);
                blake3_hasher_finalize_seek(&h, 0, out.as_mut_ptr(), 150);
            }
            4 => {
                blake3_hasher_init_keyed(&mut h, vcommon::TEST_KEY.as_ptr());
                blake3_hasher_update(&mut h, data.as_ptr() as *const _, 100);
                blake3_hasher_finalize_seek(&h, 63, out.as_mut_ptr(), 150);
            }
            0 => {
                blake3_hasher_init(&mut h);
                blake3_hasher_update(&mut h, data.as_ptr() as *const _, s0a);
                blake3_hasher_update(&mut h, data[s0a..].as_ptr() as *const _, s0b);
                blake3_hasher_finalize_seek(&h, 0, out.as_mut_ptr(), 150);
            }
            1 => {
                blake3_hasher_init_keyed(&mut h, vcommon::TEST_KEY.as_ptr());
                blake3_hasher_update(&mut h, data[100..].as_ptr() as *const _, s1);
                blake3_hasher_finalize_seek(&h, 64 * (1u64 << 32) - 64, out.as_mut_ptr(), 150);
            }
            5 | 6 => {
                // key derivation with a context longer than a chunk (hashed as a tree of its own), a
                // different one per sequence
                let ctx = long_context(which % NCSEQ);
                blake3_hasher_init_derive_key_raw(&mut h, ctx.as_ptr() as *const _, ctx.len());
                blake3_hasher_update(&mut h, data.as_ptr() as *const _, 70);
                blake3_hasher_finalize_seek(&h, 0, out.as_mut_ptr(), 150);
            }
            _ => {
                let ctx = b"vsched c context";
                blake3_hasher_init_derive_key_raw(&mut h, ctx.as_ptr() as *const _, ctx.len());
                blake3_hasher_update(&mut h, data[7..].as_ptr() as *const _, 17 * 1024 + 1);
                blake3_hasher_finalize_seek(&h, 1, out.as_mut_ptr(), 150);
            }
        }
        out
    }
}

fn c_spec(which: usize, data: &[u8]) -> Vec<u8> {
    let (s0a, s0b, s1) = c_sizes();
    match which % NCSEQ {
        5 | 6 => b3spec::xof(&b3spec::Mode::derive(&long_context(which % NCSEQ)), &data[..70], 0, 150),
        3 => b3spec::xof(&b3spec::Mode::hash(), &data[..1025], 0, 150),
        4 => b3spec::xof(&b3spec::Mode::keyed(vcommon::TEST_KEY), &data[..100], 63, 150),
        0 => b3spec::xof(&b3spec::Mode::hash(), &data[..s0a + s0b], 0, 150),
        1 => b3spec::xof(&b3spec::Mode::keyed(vcommon::TEST_KEY), &data[100..100 + s1], 64 * (1u64 << 32) - 64, 150),
        _ => b3spec::xof(&b3spec::Mode::derive(b"vsched c context"), &data[7..7 + 17 * 1024 + 1], 1, 150),
    }
}

pub fn c18(args: &Args, rep: &mut Report) {
    let t = args.thorough();
    crate::rust_side::HEAVY.store(t, std::sync::atomic::Ordering::SeqCst);
    let data = std::sync::Arc::new(vcommon::stream_b(args.seed ^ 0x18C, 80 * 1024));
    let solo: Vec<Vec<u8>> = (0..NCSEQ).map(|w| c_spec(w, &data)).collect();
    let real = real_mask();
    for w in 0..NCSEQ {
        rep.inc("evaluations");
        rep.inc("spec_comparisons");
        set_features(UNDEFINED);
        if c_sequence(w, &data) != solo[w] {
            record("c:solo:differs-from-spec", format!("C operation sequence {} alone differs from the spec", w), json!({"property": "C18", "engine": "sched/c", "sequence": w, "check": "c:solo:differs-from-spec"}));
        }
    }
    let combos: Vec<Vec<usize>> = if t { vec![vec![0, 1], vec![1, 2], vec![0, 2], vec![1, 1], vec![4, 2], vec![5, 6], vec![5, 5], vec![3, 4, 2], vec![0, 1, 2], vec![2, 2, 1]] } else { vec![vec![0, 1], vec![1, 2], vec![1, 1], vec![3, 4], vec![4, 2], vec![5, 6], vec![3, 4, 0], vec![4, 4, 3]] };
    for bound1_pass in (if t { vec![true, false] } else { vec![false] }) {
    for combo in combos.clone() {
        let bound = if combo.len() == 3 { 2 } else if t { 3 } else { 2 };
        let (c2, d2, s2) = (combo.clone(), data.clone(), solo.clone());
        crate::set_current(&format!("C library, threads running operation sequences {:?} on their own hashers", combo));
        let n = crate::explore_iterative(if bound1_pass { 1 } else { bound }, if !t { Some(110) } else if combo.len() == 3 { Some(300) } else { None }, 50_000, move || {
            // every execution starts with an empty feature cache: detection itself races
            set_features(UNDEFINED);
            let mut hs = vec![];
            for (slot, &w) in c2.iter().enumerate() {
                let (d3, s3, c3) = (d2.clone(), s2.clone(), c2.clone());
                hs.push(spawn_big(move || {
                    if c_sequence(w, &d3) != s3[w] {
                        record("c:isolation:result-differs-from-solo-run", format!("C operation sequence {} (thread {} of {:?}) gives a different result when interleaved with the others, detection racing", w, slot, c3), json!({"property": "C18", "engine": "sched/c", "threads": c3, "check": "c:isolation:result-differs-from-solo-run"}));
                    }
                }));
            }
            for h in hs {
                h.join().expect("worker");
            }
            let f = get_features();
            if f != real {
                record("c:feature-cache:final-value-wrong", format!("after racing detection the feature cache holds {:#x} instead of {:#x}", f, real), json!({"property": "C18", "engine": "sched/c", "threads": c2, "check": "c:feature-cache:final-value-wrong"}));
            }
        });
        rep.add("evaluations", n);
        rep.add("states", n);
        rep.add("transitions", n);
        rep.add("distinct_nontrivial", n.saturating_sub(1));
        rep.inc("loom_models");
    }
    }
    set_features(UNDEFINED);
    let (s0a, s0b, s1) = c_sizes();
    rep.sample(json!({"side": "c", "threads": [["init", format!("update({})", s0a), format!("update({})", s0b), "finalize_seek(0,150)"], ["init_keyed", format!("update({})", s1), "finalize_seek(2^38-64,150)"]], "feature_cache": "UNDEFINED at the start of every execution; its load and store are scheduling points", "preemption_bounds": "1, then 2 (3 thorough) if small at bound 1"}));
}
