#include <stddef.h>
#include <stdint.h>
#include "blake3.h"
#include "blake3_impl.h"
/* under BLAKE3_TEAM_BLAKE3_VERIF the cache is a plain int accessed only through the hook functions */
extern int g_cpu_features;
int *verif_features_cell(void) { return &g_cpu_features; }
size_t verif_sizeof_hasher(void) { return sizeof(blake3_hasher); }
