/* Free-running race pass for C08: blake3_hasher_update_tbb with a parallel_invoke that really
 * runs the two halves on two threads, under ThreadSanitizer; results compared with update. */
#include <stdint.h>
#include <stdio.h>
#include <stdlib.h>
#include <string.h>
#include "blake3.h"

int main(void) {
  size_t sizes[] = {2048, 5 * 1024 + 3, 64 * 1024, 1 << 20};
  unsigned rounds = 0;
  for (size_t s = 0; s < sizeof(sizes) / sizeof(sizes[0]); s++) {
    size_t n = sizes[s];
    uint8_t *buf = malloc(n);
    for (size_t i = 0; i < n; i++) buf[i] = (uint8_t)((i * 131 + 7) % 251);
    uint8_t want[64], got[64];
    blake3_hasher a;
    blake3_hasher_init(&a);
    blake3_hasher_update(&a, buf, n);
    blake3_hasher_finalize(&a, want, 64);
    for (int r = 0; r < 6; r++) {
      blake3_hasher b;
      blake3_hasher_init(&b);
      blake3_hasher_update(&b, buf, 1);
      blake3_hasher_update_tbb(&b, buf + 1, n - 1);
      blake3_hasher_finalize(&b, got, 64);
      if (memcmp(want, got, 64) != 0) {
        printf("MISMATCH size=%zu round=%d\n", n, r);
        return 3;
      }
      rounds++;
    }
    free(buf);
  }
  printf("TSAN-DRIVER-OK rounds=%u\n", rounds);
  return 0;
}
