//! vshim - stand-ins for `core::sync` / `std::sync` that the schedule explorer substitutes, textually,
//! into its private copy of the blake3 crate's source (runner/instrument.py). Every operation on an
//! atomic, lock or once-cell that the crate's own source performs becomes a scheduling point of the
//! controlled scheduler and is then carried out on the real std primitive. loom runs one thread at
//! a time, so the explored semantics are sequentially consistent; weaker orderings are not modelled.
//! Locks never block the OS thread: they spin through the scheduler (`blocked` hook) instead.
use std::sync::atomic::{AtomicPtr as StdAtomicPtr, AtomicU64 as StdAtomicU64, Ordering as StdOrdering};

static POINT_HOOK: StdAtomicPtr<()> = StdAtomicPtr::new(std::ptr::null_mut());
static BLOCKED_HOOK: StdAtomicPtr<()> = StdAtomicPtr::new(std::ptr::null_mut());
/// Number of instrumented operations executed (evidence: 0 means the crate's own source performs none).
pub static OPS: StdAtomicU64 = StdAtomicU64::new(0);

pub fn set_hooks(point: fn(), blocked: fn()) {
    POINT_HOOK.store(point as *mut (), StdOrdering::SeqCst);
    BLOCKED_HOOK.store(blocked as *mut (), StdOrdering::SeqCst);
}

// ---- process-global objects are put back to their initial bytes before every execution ----
//
// A stateless explorer re-executes the body from the start, so state that outlives an execution
// (a `static` cache, a once-cell) would make executions differ. The initial value of a static is a
// constant, so its initial bytes own no heap memory: the first time an operation touches a shim
// object that lies in the executable's data / bss segment its bytes are saved, and `reset_statics`
// copies them back (whatever the object pointed to since is leaked). Objects on the heap or the
// stack are created by the execution itself and are left alone.
extern "C" {
    static __data_start: u8;
    static _end: u8;
}

static SNAPSHOTS: std::sync::Mutex<Vec<(usize, Vec<u8>)>> = std::sync::Mutex::new(Vec::new());
pub static STATICS_SEEN: StdAtomicU64 = StdAtomicU64::new(0);

#[inline]
pub fn touch<T: ?Sized>(obj: &T) {
    let addr = obj as *const T as *const u8 as usize;
    let (lo, hi) = unsafe { (&__data_start as *const u8 as usize, &_end as *const u8 as usize) };
    if addr < lo || addr >= hi {
        return;
    }
    let len = std::mem::size_of_val(obj);
    let mut s = SNAPSHOTS.lock().unwrap_or_else(|e| e.into_inner());
    if s.iter().any(|(a, _)| *a == addr) {
        return;
    }
    let bytes = unsafe { std::slice::from_raw_parts(addr as *const u8, len) }.to_vec();
    s.push((addr, bytes));
    STATICS_SEEN.fetch_add(1, StdOrdering::Relaxed);
}

/// Put every static shim object seen so far back to its initial bytes (call between executions,
/// when no thread of the previous execution is left).
pub fn reset_statics() {
    let s = SNAPSHOTS.lock().unwrap_or_else(|e| e.into_inner());
    for (addr, bytes) in s.iter() {
        unsafe { std::ptr::copy_nonoverlapping(bytes.as_ptr(), *addr as *mut u8, bytes.len()) };
    }
}

#[inline(never)]
pub fn point() {
    OPS.fetch_add(1, StdOrdering::Relaxed);
    let p = POINT_HOOK.load(StdOrdering::SeqCst);
    if !p.is_null() {
        let f: fn() = unsafe { std::mem::transmute(p) };
        f();
    }
}

#[inline(never)]
pub fn blocked() {
    let p = BLOCKED_HOOK.load(StdOrdering::SeqCst);
    if !p.is_null() {
        let f: fn() = unsafe { std::mem::transmute(p) };
        f();
    } else {
        std::thread::yield_now();
    }
}

pub mod sync {
    pub use std::sync::*;

    pub mod atomic {
        pub use core::sync::atomic::Ordering;
        use core::sync::atomic as real;

        pub fn fence(order: Ordering) {
            crate::point();
            real::fence(order)
        }
        pub fn compiler_fence(order: Ordering) {
            real::compiler_fence(order)
        }
        #[allow(deprecated)]
        pub fn spin_loop_hint() {
            crate::blocked()
        }

        macro_rules! common {
            ($name:ident, $real:ty, $t:ty) => {
                #[repr(transparent)]
                pub struct $name($real);
                impl $name {
                    pub const fn new(v: $t) -> Self {
                        Self(<$real>::new(v))
                    }
                    pub fn load(&self, o: Ordering) -> $t {
                        crate::touch(self); crate::point();
                        self.0.load(o)
                    }
                    pub fn store(&self, v: $t, o: Ordering) {
                        crate::touch(self); crate::point();
                        self.0.store(v, o)
                    }
                    pub fn swap(&self, v: $t, o: Ordering) -> $t {
                        crate::touch(self); crate::point();
                        self.0.swap(v, o)
                    }
                    pub fn compare_exchange(&self, c: $t, n: $t, s: Ordering, f: Ordering) -> Result<$t, $t> {
                        crate::touch(self); crate::point();
                        self.0.compare_exchange(c, n, s, f)
                    }
                    pub fn compare_exchange_weak(&self, c: $t, n: $t, s: Ordering, f: Ordering) -> Result<$t, $t> {
                        crate::touch(self); crate::point();
                        // never fails spuriously here: a spurious failure is a retry, which the caller's loop absorbs
                        self.0.compare_exchange(c, n, s, f)
                    }
                    pub fn fetch_update<F: FnMut($t) -> Option<$t>>(&self, s: Ordering, f: Ordering, mut g: F) -> Result<$t, $t> {
                        crate::touch(self); crate::point();
                        self.0.fetch_update(s, f, |x| g(x))
                    }
                    pub fn get_mut(&mut self) -> &mut $t {
                        self.0.get_mut()
                    }
                    pub fn into_inner(self) -> $t {
                        self.0.into_inner()
                    }
                    pub const fn as_ptr(&self) -> *mut $t {
                        self.0.as_ptr()
                    }
                }
                impl core::fmt::Debug for $name {
                    fn fmt(&self, f: &mut core::fmt::Formatter<'_>) -> core::fmt::Result {
                        core::fmt::Debug::fmt(&self.0, f)
                    }
                }
                impl From<$t> for $name {
                    fn from(v: $t) -> Self {
                        Self::new(v)
                    }
                }
            };
        }
        macro_rules! int {
            ($name:ident, $real:ty, $t:ty) => {
                common!($name, $real, $t);
                impl Default for $name {
                    fn default() -> Self {
                        Self::new(0)
                    }
                }
                impl $name {
                    pub fn fetch_add(&self, v: $t, o: Ordering) -> $t {
                        crate::touch(self); crate::point();
                        self.0.fetch_add(v, o)
                    }
                    pub fn fetch_sub(&self, v: $t, o: Ordering) -> $t {
                        crate::touch(self); crate::point();
                        self.0.fetch_sub(v, o)
                    }
                    pub fn fetch_and(&self, v: $t, o: Ordering) -> $t {
                        crate::touch(self); crate::point();
                        self.0.fetch_and(v, o)
                    }
                    pub fn fetch_nand(&self, v: $t, o: Ordering) -> $t {
                        crate::touch(self); crate::point();
                        self.0.fetch_nand(v, o)
                    }
                    pub fn fetch_or(&self, v: $t, o: Ordering) -> $t {
                        crate::touch(self); crate::point();
                        self.0.fetch_or(v, o)
                    }
                    pub fn fetch_xor(&self, v: $t, o: Ordering) -> $t {
                        crate::touch(self); crate::point();
                        self.0.fetch_xor(v, o)
                    }
                    pub fn fetch_max(&self, v: $t, o: Ordering) -> $t {
                        crate::touch(self); crate::point();
                        self.0.fetch_max(v, o)
                    }
                    pub fn fetch_min(&self, v: $t, o: Ordering) -> $t {
                        crate::touch(self); crate::point();
                        self.0.fetch_min(v, o)
                    }
                }
            };
        }
        int!(AtomicU8, real::AtomicU8, u8);
        int!(AtomicU16, real::AtomicU16, u16);
        int!(AtomicU32, real::AtomicU32, u32);
        int!(AtomicU64, real::AtomicU64, u64);
        int!(AtomicUsize, real::AtomicUsize, usize);
        int!(AtomicI8, real::AtomicI8, i8);
        int!(AtomicI16, real::AtomicI16, i16);
        int!(AtomicI32, real::AtomicI32, i32);
        int!(AtomicI64, real::AtomicI64, i64);
        int!(AtomicIsize, real::AtomicIsize, isize);
        common!(AtomicBool, real::AtomicBool, bool);
        impl Default for AtomicBool {
            fn default() -> Self {
                Self::new(false)
            }
        }
        impl AtomicBool {
            pub fn fetch_and(&self, v: bool, o: Ordering) -> bool {
                crate::touch(self); crate::point();
                self.0.fetch_and(v, o)
            }
            pub fn fetch_nand(&self, v: bool, o: Ordering) -> bool {
                crate::touch(self); crate::point();
                self.0.fetch_nand(v, o)
            }
            pub fn fetch_or(&self, v: bool, o: Ordering) -> bool {
                crate::touch(self); crate::point();
                self.0.fetch_or(v, o)
            }
            pub fn fetch_xor(&self, v: bool, o: Ordering) -> bool {
                crate::touch(self); crate::point();
                self.0.fetch_xor(v, o)
            }
        }

        #[repr(transparent)]
        pub struct AtomicPtr<T>(real::AtomicPtr<T>);
        impl<T> AtomicPtr<T> {
            pub const fn new(p: *mut T) -> Self {
                Self(real::AtomicPtr::new(p))
            }
            pub fn load(&self, o: Ordering) -> *mut T {
                crate::touch(self); crate::point();
                self.0.load(o)
            }
            pub fn store(&self, p: *mut T, o: Ordering) {
                crate::touch(self); crate::point();
                self.0.store(p, o)
            }
            pub fn swap(&self, p: *mut T, o: Ordering) -> *mut T {
                crate::touch(self); crate::point();
                self.0.swap(p, o)
            }
            pub fn compare_exchange(&self, c: *mut T, n: *mut T, s: Ordering, f: Ordering) -> Result<*mut T, *mut T> {
                crate::touch(self); crate::point();
                self.0.compare_exchange(c, n, s, f)
            }
            pub fn compare_exchange_weak(&self, c: *mut T, n: *mut T, s: Ordering, f: Ordering) -> Result<*mut T, *mut T> {
                crate::touch(self); crate::point();
                self.0.compare_exchange(c, n, s, f)
            }
            pub fn get_mut(&mut self) -> &mut *mut T {
                self.0.get_mut()
            }
            pub fn into_inner(self) -> *mut T {
                self.0.into_inner()
            }
        }
        impl<T> Default for AtomicPtr<T> {
            fn default() -> Self {
                Self::new(core::ptr::null_mut())
            }
        }
        impl<T> core::fmt::Debug for AtomicPtr<T> {
            fn fmt(&self, f: &mut core::fmt::Formatter<'_>) -> core::fmt::Result {
                core::fmt::Debug::fmt(&self.0, f)
            }
        }
    }

    // ---- locks and once-cells: same guard / error types as std, never blocking the OS thread ----

    pub struct Mutex<T: ?Sized>(std::sync::Mutex<T>);
    impl<T> Mutex<T> {
        pub const fn new(v: T) -> Self {
            Self(std::sync::Mutex::new(v))
        }
        pub fn into_inner(self) -> LockResult<T> {
            self.0.into_inner()
        }
    }
    impl<T: ?Sized> Mutex<T> {
        pub fn lock(&self) -> LockResult<MutexGuard<'_, T>> {
            loop {
                crate::touch(self); crate::point();
                match self.0.try_lock() {
                    Ok(g) => return Ok(g),
                    Err(TryLockError::Poisoned(p)) => return Err(p),
                    Err(TryLockError::WouldBlock) => crate::blocked(),
                }
            }
        }
        pub fn try_lock(&self) -> TryLockResult<MutexGuard<'_, T>> {
            crate::touch(self); crate::point();
            self.0.try_lock()
        }
        pub fn is_poisoned(&self) -> bool {
            self.0.is_poisoned()
        }
        pub fn clear_poison(&self) {
            self.0.clear_poison()
        }
        pub fn get_mut(&mut self) -> LockResult<&mut T> {
            self.0.get_mut()
        }
    }
    impl<T: Default> Default for Mutex<T> {
        fn default() -> Self {
            Self::new(T::default())
        }
    }
    impl<T> From<T> for Mutex<T> {
        fn from(v: T) -> Self {
            Self::new(v)
        }
    }
    impl<T: ?Sized + std::fmt::Debug> std::fmt::Debug for Mutex<T> {
        fn fmt(&self, f: &mut std::fmt::Formatter<'_>) -> std::fmt::Result {
            std::fmt::Debug::fmt(&self.0, f)
        }
    }

    pub struct RwLock<T: ?Sized>(std::sync::RwLock<T>);
    impl<T> RwLock<T> {
        pub const fn new(v: T) -> Self {
            Self(std::sync::RwLock::new(v))
        }
        pub fn into_inner(self) -> LockResult<T> {
            self.0.into_inner()
        }
    }
    impl<T: ?Sized> RwLock<T> {
        pub fn read(&self) -> LockResult<RwLockReadGuard<'_, T>> {
            loop {
                crate::touch(self); crate::point();
                match self.0.try_read() {
                    Ok(g) => return Ok(g),
                    Err(TryLockError::Poisoned(p)) => return Err(p),
                    Err(TryLockError::WouldBlock) => crate::blocked(),
                }
            }
        }
        pub fn write(&self) -> LockResult<RwLockWriteGuard<'_, T>> {
            loop {
                crate::touch(self); crate::point();
                match self.0.try_write() {
                    Ok(g) => return Ok(g),
                    Err(TryLockError::Poisoned(p)) => return Err(p),
                    Err(TryLockError::WouldBlock) => crate::blocked(),
                }
            }
        }
        pub fn try_read(&self) -> TryLockResult<RwLockReadGuard<'_, T>> {
            crate::touch(self); crate::point();
            self.0.try_read()
        }
        pub fn try_write(&self) -> TryLockResult<RwLockWriteGuard<'_, T>> {
            crate::touch(self); crate::point();
            self.0.try_write()
        }
        pub fn is_poisoned(&self) -> bool {
            self.0.is_poisoned()
        }
        pub fn get_mut(&mut self) -> LockResult<&mut T> {
            self.0.get_mut()
        }
    }
    impl<T: Default> Default for RwLock<T> {
        fn default() -> Self {
            Self::new(T::default())
        }
    }
    impl<T: ?Sized + std::fmt::Debug> std::fmt::Debug for RwLock<T> {
        fn fmt(&self, f: &mut std::fmt::Formatter<'_>) -> std::fmt::Result {
            std::fmt::Debug::fmt(&self.0, f)
        }
    }

    /// A once-cell whose initialiser may be descheduled while another thread asks for the value.
    pub struct OnceLock<T> {
        inner: std::sync::OnceLock<T>,
        busy: std::sync::atomic::AtomicBool,
    }
    impl<T> OnceLock<T> {
        pub const fn new() -> Self {
            Self { inner: std::sync::OnceLock::new(), busy: std::sync::atomic::AtomicBool::new(false) }
        }
        pub fn get(&self) -> Option<&T> {
            crate::touch(self); crate::point();
            self.inner.get()
        }
        pub fn get_mut(&mut self) -> Option<&mut T> {
            self.inner.get_mut()
        }
        pub fn set(&self, v: T) -> Result<(), T> {
            crate::touch(self); crate::point();
            self.inner.set(v)
        }
        pub fn get_or_init<F: FnOnce() -> T>(&self, f: F) -> &T {
            let mut f = Some(f);
            loop {
                crate::touch(self); crate::point();
                if let Some(v) = self.inner.get() {
                    return v;
                }
                if !self.busy.swap(true, std::sync::atomic::Ordering::SeqCst) {
                    let v = (f.take().unwrap())();
                    let _ = self.inner.set(v);
                    self.busy.store(false, std::sync::atomic::Ordering::SeqCst);
                    return self.inner.get().unwrap();
                }
                crate::blocked();
            }
        }
        pub fn into_inner(self) -> Option<T> {
            self.inner.into_inner()
        }
        pub fn take(&mut self) -> Option<T> {
            self.inner.take()
        }
    }
    impl<T> Default for OnceLock<T> {
        fn default() -> Self {
            Self::new()
        }
    }
    impl<T: std::fmt::Debug> std::fmt::Debug for OnceLock<T> {
        fn fmt(&self, f: &mut std::fmt::Formatter<'_>) -> std::fmt::Result {
            std::fmt::Debug::fmt(&self.inner, f)
        }
    }

    pub struct Once {
        done: std::sync::atomic::AtomicBool,
        busy: std::sync::atomic::AtomicBool,
    }
    impl Once {
        pub const fn new() -> Self {
            Self { done: std::sync::atomic::AtomicBool::new(false), busy: std::sync::atomic::AtomicBool::new(false) }
        }
        pub fn is_completed(&self) -> bool {
            crate::touch(self); crate::point();
            self.done.load(std::sync::atomic::Ordering::SeqCst)
        }
        pub fn call_once<F: FnOnce()>(&self, f: F) {
            let mut f = Some(f);
            loop {
                crate::touch(self); crate::point();
                if self.done.load(std::sync::atomic::Ordering::SeqCst) {
                    return;
                }
                if !self.busy.swap(true, std::sync::atomic::Ordering::SeqCst) {
                    (f.take().unwrap())();
                    self.done.store(true, std::sync::atomic::Ordering::SeqCst);
                    self.busy.store(false, std::sync::atomic::Ordering::SeqCst);
                    return;
                }
                crate::blocked();
            }
        }
    }

    pub struct LazyLock<T, F = fn() -> T> {
        cell: OnceLock<T>,
        init: std::sync::Mutex<Option<F>>,
    }
    impl<T, F: FnOnce() -> T> LazyLock<T, F> {
        pub const fn new(f: F) -> Self {
            Self { cell: OnceLock::new(), init: std::sync::Mutex::new(Some(f)) }
        }
        pub fn force(this: &Self) -> &T {
            crate::touch(this);
            this.cell.get_or_init(|| {
                let f = this.init.lock().unwrap().take().expect("LazyLock initialiser already taken");
                f()
            })
        }
    }
    impl<T, F: FnOnce() -> T> std::ops::Deref for LazyLock<T, F> {
        type Target = T;
        fn deref(&self) -> &T {
            Self::force(self)
        }
    }
}

// ---- thread_local!: one value per *virtual* thread ----
//
// The controlled scheduler runs all of its threads as coroutines of one OS thread, so a real
// `thread_local!` of the crate would be shared by threads that, in reality, each have their own copy
// (a correct per-thread cache would then look like a shared one). The instrumented copy uses this
// LocalKey instead: a slot per (key, virtual thread id), emptied before every execution.
static VTHREAD_HOOK: StdAtomicPtr<()> = StdAtomicPtr::new(std::ptr::null_mut());

pub fn set_vthread_hook(f: fn() -> u64) {
    VTHREAD_HOOK.store(f as *mut (), StdOrdering::SeqCst);
}

fn vthread() -> u64 {
    let p = VTHREAD_HOOK.load(StdOrdering::SeqCst);
    if !p.is_null() {
        let f: fn() -> u64 = unsafe { std::mem::transmute(p) };
        return f();
    }
    use std::hash::{Hash, Hasher};
    let mut h = std::collections::hash_map::DefaultHasher::new();
    std::thread::current().id().hash(&mut h);
    h.finish() | (1 << 63)
}

trait ClearSlots: Sync {
    fn clear(&self);
}
static LOCAL_KEYS: std::sync::Mutex<Vec<&'static dyn ClearSlots>> = std::sync::Mutex::new(Vec::new());
pub static THREAD_LOCALS_SEEN: StdAtomicU64 = StdAtomicU64::new(0);

/// Forget every thread-local value (call between executions; values are leaked, not dropped).
pub fn reset_thread_locals() {
    for k in LOCAL_KEYS.lock().unwrap_or_else(|e| e.into_inner()).iter() {
        k.clear();
    }
}

pub struct LocalKey<T: 'static> {
    init: fn() -> T,
    slots: std::sync::Mutex<Vec<(u64, usize)>>,
    registered: std::sync::atomic::AtomicBool,
}
unsafe impl<T: 'static> Sync for LocalKey<T> {}

impl<T: 'static> ClearSlots for LocalKey<T> {
    fn clear(&self) {
        self.slots.lock().unwrap_or_else(|e| e.into_inner()).clear();
    }
}

impl<T: 'static> LocalKey<T> {
    pub const fn new(init: fn() -> T) -> Self {
        Self { init, slots: std::sync::Mutex::new(Vec::new()), registered: std::sync::atomic::AtomicBool::new(false) }
    }
    fn slot(&'static self) -> &'static T {
        if !self.registered.swap(true, StdOrdering::SeqCst) {
            LOCAL_KEYS.lock().unwrap_or_else(|e| e.into_inner()).push(self);
            THREAD_LOCALS_SEEN.fetch_add(1, StdOrdering::Relaxed);
        }
        let me = vthread();
        if let Some((_, p)) = self.slots.lock().unwrap_or_else(|e| e.into_inner()).iter().find(|(t, _)| *t == me) {
            return unsafe { &*(*p as *const T) };
        }
        let v: &'static T = Box::leak(Box::new((self.init)()));
        self.slots.lock().unwrap_or_else(|e| e.into_inner()).push((me, v as *const T as usize));
        v
    }
    pub fn with<F: FnOnce(&T) -> R, R>(&'static self, f: F) -> R {
        f(self.slot())
    }
    pub fn try_with<F: FnOnce(&T) -> R, R>(&'static self, f: F) -> Result<R, std::thread::AccessError> {
        Ok(f(self.slot()))
    }
}
impl<T: 'static> LocalKey<std::cell::Cell<T>> {
    pub fn set(&'static self, v: T) {
        self.slot().set(v)
    }
    pub fn get(&'static self) -> T
    where
        T: Copy,
    {
        self.slot().get()
    }
    pub fn take(&'static self) -> T
    where
        T: Default,
    {
        self.slot().take()
    }
    pub fn replace(&'static self, v: T) -> T {
        self.slot().replace(v)
    }
}
impl<T: 'static> LocalKey<std::cell::RefCell<T>> {
    pub fn with_borrow<F: FnOnce(&T) -> R, R>(&'static self, f: F) -> R {
        f(&self.slot().borrow())
    }
    pub fn with_borrow_mut<F: FnOnce(&mut T) -> R, R>(&'static self, f: F) -> R {
        f(&mut self.slot().borrow_mut())
    }
    pub fn set(&'static self, v: T) {
        *self.slot().borrow_mut() = v;
    }
    pub fn take(&'static self) -> T
    where
        T: Default,
    {
        self.slot().take()
    }
    pub fn replace(&'static self, v: T) -> T {
        self.slot().replace(v)
    }
}

#[macro_export]
macro_rules! thread_local {
    () => {};
    ($(#[$attr:meta])* $vis:vis static $name:ident : $t:ty = const $init:block; $($rest:tt)*) => (
        $(#[$attr])* $vis static $name: $crate::LocalKey<$t> = $crate::LocalKey::new({ fn __vshim_init() -> $t { $init } __vshim_init });
        $crate::thread_local!($($rest)*);
    );
    ($(#[$attr:meta])* $vis:vis static $name:ident : $t:ty = const $init:block) => (
        $(#[$attr])* $vis static $name: $crate::LocalKey<$t> = $crate::LocalKey::new({ fn __vshim_init() -> $t { $init } __vshim_init });
    );
    ($(#[$attr:meta])* $vis:vis static $name:ident : $t:ty = $init:expr; $($rest:tt)*) => (
        $(#[$attr])* $vis static $name: $crate::LocalKey<$t> = $crate::LocalKey::new({ fn __vshim_init() -> $t { $init } __vshim_init });
        $crate::thread_local!($($rest)*);
    );
    ($(#[$attr:meta])* $vis:vis static $name:ident : $t:ty = $init:expr) => (
        $(#[$attr])* $vis static $name: $crate::LocalKey<$t> = $crate::LocalKey::new({ fn __vshim_init() -> $t { $init } __vshim_init });
    );
}

#[cfg(test)]
mod tests {
    use std::cell::{Cell, RefCell};
    crate::thread_local! {
        static A: Cell<u32> = const { Cell::new(7) };
        pub static B: RefCell<Vec<u8>> = RefCell::new(vec![1]);
    }
    crate::thread_local!(static C: Cell<u8> = Cell::new(1));
    static M: crate::sync::Mutex<u32> = crate::sync::Mutex::new(5);
    static AT: crate::sync::atomic::AtomicU32 = crate::sync::atomic::AtomicU32::new(9);
    static OL: crate::sync::OnceLock<String> = crate::sync::OnceLock::new();
    static LL: crate::sync::LazyLock<Vec<u32>> = crate::sync::LazyLock::new(|| vec![1, 2, 3]);

    #[test]
    fn locals_and_reset() {
        assert_eq!(A.get(), 7);
        A.set(8);
        B.with_borrow_mut(|v| v.push(2));
        assert_eq!(B.with(|v| v.borrow().len()), 2);
        assert_eq!(C.get(), 1);
        let other = std::thread::spawn(|| A.get()).join().unwrap();
        assert_eq!(other, 7);
        crate::reset_thread_locals();
        assert_eq!(A.get(), 7);
        assert_eq!(B.with_borrow(|v| v.len()), 1);
    }

    #[test]
    fn statics_reset() {
        *M.lock().unwrap() = 6;
        AT.store(10, crate::sync::atomic::Ordering::SeqCst);
        assert_eq!(OL.get_or_init(|| "x".to_string()), "x");
        assert_eq!(LL.len(), 3);
        crate::reset_statics();
        assert_eq!(*M.lock().unwrap(), 5);
        assert_eq!(AT.load(crate::sync::atomic::Ordering::SeqCst), 9);
        assert!(OL.get().is_none());
        assert_eq!(OL.get_or_init(|| "y".to_string()), "y");
        assert_eq!(LL.len(), 3);
        let on_heap = Box::new(crate::sync::Mutex::new(1));
        *on_heap.lock().unwrap() = 2;
        crate::reset_statics();
        assert_eq!(*on_heap.lock().unwrap(), 2);
    }
}
