//! The C library for the schedule explorer: blake3.c with the TBB seam on and its kernel calls
//! redirected to harness functions (scheduling points), blake3_dispatch.c with the feature-cache
//! accesses routed through the H5 hook, the real c/blake3_tbb.cpp against a stand-in header. The
//! assembly kernels are linked under a cs_ prefix so that they do not collide with the copies the
//! blake3 crate itself links.
use std::path::{Path, PathBuf};

const KERNELS: [&str; 11] = [
    "blake3_compress_in_place_sse2", "blake3_compress_xof_sse2", "blake3_hash_many_sse2",
    "blake3_compress_in_place_sse41", "blake3_compress_xof_sse41", "blake3_hash_many_sse41",
    "blake3_hash_many_avx2",
    "blake3_compress_in_place_avx512", "blake3_compress_xof_avx512", "blake3_hash_many_avx512", "blake3_xof_many_avx512",
];

fn main() {
    let c = Path::new("/repo/c");
    let out = PathBuf::from(std::env::var("OUT_DIR").unwrap());
    let base = || {
        let mut b = cc::Build::new();
        b.include(c).warnings(false).opt_level(2).flag("-g");
        b.define("BLAKE3_USE_TBB", None).define("BLAKE3_TESTING", None).define("BLAKE3_TEAM_BLAKE3_VERIF", None);
        b.emit_rerun_if_env_changed(false);
        b
    };
    // blake3.c: kernel calls become scheduling points
    let mut b = base();
    b.flag("-std=c11").file(c.join("blake3.c"));
    for n in ["blake3_hash_many", "blake3_compress_in_place", "blake3_compress_xof", "blake3_xof_many"] {
        b.define(n, Some(n.replace("blake3_", "verif_").as_str()));
    }
    b.compile("cs_blake3_c");
    // dispatch + portable: real dispatchers, cs_-prefixed kernels, hooked feature cache
    let mut b = base();
    b.flag("-std=c11").file(c.join("blake3_dispatch.c")).file(c.join("blake3_portable.c")).file("csrc/shim.c");
    for n in KERNELS {
        b.define(n, Some(format!("cs_{}", n).as_str()));
    }
    b.compile("cs_blake3_dispatch");
    // assembly under the cs_ prefix
    let mut b = base();
    for f in ["blake3_sse2_x86-64_unix.S", "blake3_sse41_x86-64_unix.S", "blake3_avx2_x86-64_unix.S", "blake3_avx512_x86-64_unix.S"] {
        let text = std::fs::read_to_string(c.join(f)).unwrap().replace("blake3_", "cs_blake3_");
        let p = out.join(format!("cs_{}", f));
        std::fs::write(&p, text).unwrap();
        b.file(p);
    }
    b.flag("-mavx512f").flag("-mavx512vl");
    b.compile("cs_blake3_asm");
    // the real TBB seam against the scripted stand-in header
    let mut b = base();
    b.cpp(true).flag("-std=c++17").flag("-fno-exceptions").flag("-fno-rtti").include("../../shims/tbb_scripted").file(c.join("blake3_tbb.cpp"));
    b.cpp_link_stdlib(None);
    b.compile("cs_blake3_tbb");
    for entry in std::fs::read_dir(c).unwrap() {
        println!("cargo::rerun-if-changed={}", entry.unwrap().path().display());
    }
    println!("cargo::rerun-if-changed=csrc/shim.c");
    println!("cargo::rerun-if-changed=../../shims/tbb_scripted/oneapi/tbb/parallel_invoke.h");
    println!("cargo::rerun-if-changed=build.rs");
}
