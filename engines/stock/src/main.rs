//! vstock: the C01 cross-configuration ledger computed by a stock build (no verification cfg).
use vcommon::serde_json::json;

fn ledger_lengths() -> Vec<usize> {
    let mut v: Vec<usize> = vec![
        0, 1, 63, 64, 65, 1023, 1024, 1025, 2048, 2049, 3072, 3073, 4096, 4097, 5121, 8192, 8193, 16384, 16385, 17409, 32768, 32769, 65537,
    ];
    for k in [3usize, 5, 7, 9, 15, 17, 31, 33, 63, 65, 100, 127, 129, 255, 257] {
        v.push(k * 1024);
        v.push(k * 1024 + 1);
    }
    v.sort();
    v.dedup();
    v
}

fn main() {
    let args = vcommon::Args::parse();
    let mut rep = vcommon::Report::new(&args, "stock/ledger", "exploration");
    let level = format!("{:?}", blake3::platform::Platform::detect()).to_lowercase();
    let lens = ledger_lengths();
    let data = vcommon::stream_a(*lens.last().unwrap());
    let mut sum: u128 = 0;
    for kind in ["hash", "keyed", "derive"] {
        for &n in &lens {
            let d: [u8; 32] = match kind {
                "hash" => *blake3::hash(&data[..n]).as_bytes(),
                "keyed" => *blake3::keyed_hash(vcommon::TEST_KEY, &data[..n]).as_bytes(),
                _ => blake3::derive_key(vcommon::TEST_CONTEXT, &data[..n]),
            };
            sum = sum.wrapping_add(vcommon::fingerprint(format!("{}|{}|{}", kind, n, vcommon::hex(&d)).as_bytes()));
            rep.inc("evaluations");
            rep.inc("distinct_nontrivial");
            rep.inc("ledger_entries");
        }
    }
    rep.extra.insert("stock_ledger".into(), json!({ level.clone(): format!("{:032x}", sum) }));
    rep.rule = "stock (guard off) build: one-shot hash/keyed_hash/derive_key on the fixed ledger lengths at the level upstream's own no_* features select".into();
    rep.sample(json!({"level": level, "entries": rep.get("ledger_entries")}));
    rep.write(&args.report);
}
