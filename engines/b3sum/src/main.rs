//! vb3 - engine for C12 (b3sum output and --check exit status) and C13 (checkfile format).
//! The real `b3sum` binary is built by this crate from /repo/b3sum/src/main.rs; the private
//! parsing/printing functions are reached by including the same source file into a module.
#![allow(dead_code, unused_imports)]

mod refmodel;
mod c12;
mod c13;

/// /repo/b3sum/src/main.rs compiled as a module, plus thin public wrappers around its private
/// functions (no change to the repository needed).
pub mod real {
    include!("/repo/b3sum/src/main.rs");

    pub struct Parsed {
        pub file_string: String,
        pub is_escaped: bool,
        pub file_path: std::path::PathBuf,
        pub hash: [u8; 32],
    }

    pub fn v_parse(line: &str) -> Result<Parsed, String> {
        match parse_check_line(line) {
            Ok(p) => Ok(Parsed { file_string: p.file_string, is_escaped: p.is_escaped, file_path: p.file_path, hash: *p.expected_hash.as_bytes() }),
            Err(e) => Err(e.to_string()),
        }
    }

    pub fn v_path_text(path: &std::path::Path) -> (String, bool) {
        let f = filepath_to_string(path);
        (f.filepath_string, f.is_escaped)
    }
}

use vcommon::{Args, Report};

fn main() {
    let args = Args::parse();
    vcommon::silence_panics();
    if let Err(e) = b3spec::self_check() {
        eprintln!("ORACLE-ANCHOR-FAILED: {}", e);
        std::process::exit(2);
    }
    if let Some(path) = &args.replay {
        let text = std::fs::read_to_string(path).expect("replay file");
        let v: vcommon::serde_json::Value = vcommon::serde_json::from_str(&text).expect("replay json");
        let reproduced = match args.prop.as_str() {
            "C12" => c12::replay(&args, &v),
            "C13" => c13::replay(&args, &v),
            _ => {
                eprintln!("no replay for {}", args.prop);
                std::process::exit(2);
            }
        };
        println!("{}", if reproduced { "REPRODUCED" } else { "NOT-REPRODUCED" });
        std::process::exit(if reproduced { 1 } else { 0 });
    }
    let mut rep = match args.prop.as_str() {
        "C12" => Report::new(&args, "b3sum/cli", "fault_enumeration"),
        "C13" => Report::new(&args, "b3sum/checkfile_format", "exploration"),
        _ => {
            eprintln!("vb3 does not serve {}", args.prop);
            std::process::exit(2);
        }
    };
    match args.prop.as_str() {
        "C12" => c12::run(&args, &mut rep),
        "C13" => c13::run(&args, &mut rep),
        _ => unreachable!(),
    }
    rep.write(&args.report);
}

/// Path of the real b3sum binary: next to this executable.
pub fn b3sum_bin() -> std::path::PathBuf {
    let me = std::env::current_exe().expect("current_exe");
    me.parent().unwrap().join("b3sum")
}

pub struct RunOut {
    pub code: Option<i32>,
    pub stdout: Vec<u8>,
    pub stderr: Vec<u8>,
}

pub fn run_b3sum(cwd: &std::path::Path, args: &[std::ffi::OsString], stdin: &[u8]) -> RunOut {
    run_b3sum_env(cwd, args, stdin, Some(3))
}

/// `pool`: value for RAYON_NUM_THREADS (b3sum documents that it is respected when --num-threads is
/// absent); None leaves the default (one thread per core), which costs ~40 ms of CPU per process.
pub fn run_b3sum_env(cwd: &std::path::Path, args: &[std::ffi::OsString], stdin: &[u8], pool: Option<usize>) -> RunOut {
    use std::io::Write;
    use std::process::{Command, Stdio};
    let mut cmd = Command::new(b3sum_bin());
    match pool {
        Some(n) => cmd.env("RAYON_NUM_THREADS", n.to_string()),
        None => cmd.env_remove("RAYON_NUM_THREADS"),
    };
    let mut child = cmd
        .args(args)
        .current_dir(cwd)
        .env("RUST_BACKTRACE", "0")
        .stdin(Stdio::piped())
        .stdout(Stdio::piped())
        .stderr(Stdio::piped())
        .spawn()
        .unwrap_or_else(|e| {
            eprintln!("cannot spawn b3sum: {}", e);
            std::process::exit(2)
        });
    {
        let mut si = child.stdin.take().unwrap();
        let _ = si.write_all(stdin);
    }
    let out = child.wait_with_output().expect("wait");
    RunOut { code: out.status.code(), stdout: out.stdout, stderr: out.stderr }
}

/// Wait until the pipe behind `fd` holds no unread bytes (the reader has taken everything written so far).
fn wait_drained(fd: std::os::unix::io::RawFd) {
    for _ in 0..200_000 {
        let mut n: libc::c_int = 0;
        let r = unsafe { libc::ioctl(fd, libc::FIONREAD, &mut n) };
        if r != 0 || n == 0 {
            return;
        }
        std::thread::yield_now();
    }
}

/// Like run_b3sum, but stdin is delivered in the given bursts: each burst is written only after the
/// child has consumed the previous one, so the child's reads come back short at exactly these
/// boundaries (the environment answer "short read" made deterministic).
pub fn run_b3sum_bursts(cwd: &std::path::Path, args: &[std::ffi::OsString], bursts: &[&[u8]]) -> RunOut {
    use std::io::Write;
    use std::os::unix::io::AsRawFd;
    use std::process::{Command, Stdio};
    let mut child = Command::new(b3sum_bin())
        .env("RAYON_NUM_THREADS", "3")
        .args(args)
        .current_dir(cwd)
        .env("RUST_BACKTRACE", "0")
        .stdin(Stdio::piped())
        .stdout(Stdio::piped())
        .stderr(Stdio::piped())
        .spawn()
        .unwrap_or_else(|e| {
            eprintln!("cannot spawn b3sum: {}", e);
            std::process::exit(2)
        });
    {
        let mut si = child.stdin.take().unwrap();
        let fd = si.as_raw_fd();
        for b in bursts {
            // a burst larger than the pipe buffer is split by the kernel anyway; keep them below 64 KiB
            let _ = si.write_all(b);
            let _ = si.flush();
            wait_drained(fd);
            // the child may have read only part of it; wait_drained returned when nothing is left
        }
    }
    let out = child.wait_with_output().expect("wait");
    RunOut { code: out.status.code(), stdout: out.stdout, stderr: out.stderr }
}

/// The same through a named pipe given to b3sum as a path argument.
pub fn run_b3sum_fifo(cwd: &std::path::Path, args: &[std::ffi::OsString], fifo_name: &str, bursts: &[&[u8]]) -> Option<RunOut> {
    use std::io::Write;
    use std::os::unix::io::AsRawFd;
    use std::process::{Command, Stdio};
    let path = cwd.join(fifo_name);
    let _ = std::fs::remove_file(&path);
    let c = std::ffi::CString::new(path.to_str()?).ok()?;
    if unsafe { libc::mkfifo(c.as_ptr(), 0o600) } != 0 {
        return None;
    }
    let mut a: Vec<std::ffi::OsString> = args.to_vec();
    a.push(os(fifo_name));
    let child = Command::new(b3sum_bin())
        .env("RAYON_NUM_THREADS", "3")
        .args(&a)
        .current_dir(cwd)
        .env("RUST_BACKTRACE", "0")
        .stdin(Stdio::null())
        .stdout(Stdio::piped())
        .stderr(Stdio::piped())
        .spawn()
        .ok()?;
    {
        // opening for writing blocks until b3sum has opened the FIFO for reading
        let mut w = std::fs::OpenOptions::new().write(true).open(&path).ok()?;
        let fd = w.as_raw_fd();
        for b in bursts {
            let _ = w.write_all(b);
            wait_drained(fd);
        }
    }
    let out = child.wait_with_output().ok()?;
    let _ = std::fs::remove_file(&path);
    Some(RunOut { code: out.status.code(), stdout: out.stdout, stderr: out.stderr })
}

pub fn os(s: &str) -> std::ffi::OsString {
    std::ffi::OsString::from(s)
}

pub fn scratch(tag: &str) -> std::path::PathBuf {
    let d = std::path::PathBuf::from(format!("/verif/out/b3sum-{}-{}", tag, std::process::id()));
    let _ = std::fs::remove_dir_all(&d);
    std::fs::create_dir_all(&d).expect("scratch dir under /verif/out");
    d
}
