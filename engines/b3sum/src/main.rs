//! vb3 - engine for C12 (b3sum output and --check exit status) and C13 (checkfile format).
//! The real `b3sum` binary is built by this crate from /repo/b3sum/src/main.rs; the private
//! parsing/printing functions are reached by including the same source file into a module.
#![allow(dead_code, unused_imports)]

mod refmodel;
mod c12;
mod c13;

/// /repo/b3sum/src/main.rs compiled as a module, plus thin public wrappers around its private
/// functions (no change to the repository needed).
pub mod real {
    include!("/repo/b3sum/src/main.rs");

    pub struct Parsed {
        pub file_string: String,
        pub is_escaped: bool,
        pub file_path: std::path::PathBuf,
        pub hash: [u8; 32],
    }

    pub fn v_parse(line: &str) -> Result<Parsed, String> {
        match parse_check_line(line) {
            Ok(p) => Ok(Parsed { file_string: p.file_string, is_escaped: p.is_escaped, file_path: p.file_path, hash: *p.expected_hash.as_bytes() }),
            Err(e) => Err(e.to_string()),
        }
    }

    pub fn v_path_text(path: &std::path::Path) -> (String, bool) {
        let f = filepath_to_string(path);
        (f.filepath_string, f.is_escaped)
    }
}

use vcommon::{Args, Report};

fn main() {
    let args = Args::parse();
    vcommon::silence_panics();
    if let Err(e) = b3spec::self_check() {
        eprintln!("ORACLE-ANCHOR-FAILED: {}", e);
        std::process::exit(2);
    }
    if let Some(path) = &args.replay {
        let text = std::fs::read_to_string(path).expect("replay file");
        let v: vcommon::serde_json::Value = vcommon::serde_json::from_str(&text).expect("replay json");
        let reproduced = match args.prop.as_str() {
            "C12" => c12::replay(&args, &v),
            "C13" => c13::replay(&args, &v),
            _ => {
                eprintln!("no replay for {}", args.prop);
                std::process::exit(2);
            }
        };
        println!("{}", if reproduced { "REPRODUCED" } else { "NOT-REPRODUCED" });
        std::process::exit(if reproduced { 1 } else { 0 });
    }
    let mut rep = match args.prop.as_str() {
        "C12" => Report::new(&args, "b3sum/cli", "fault_enumeration"),
        "C13" => Report::new(&args, "b3sum/checkfile_format", "exploration"),
        _ => {
            eprintln!("vb3 does not serve {}", args.prop);
            std::process::exit(2);
        }
    };
    match args.prop.as_str() {
        "C12" => c12::run(&args, &mut rep),
        "C13" => c13::run(&args, &mut rep),
        _ => unreachable!(),
    }
    rep.write(&args.report);
}

/// Path of the real b3sum binary: next to this executable.
pub fn b3sum_bin() -> std::path::PathBuf {
    let me = std::env::current_exe().expect("current_exe");
    me.parent().unwrap().join("b3sum")
}

pub struct RunOut {
    pub code: Option<i32>,
    pub stdout: Vec<u8>,
    pub stderr: Vec<u8>,
}

pub fn run_b3sum(cwd: &std::path::Path, args: &[std::ffi::OsString], stdin: &[u8]) -> RunOut {
    run_b3sum_env(cwd, args, stdin, Some(3))
}

/// `pool`: value for RAYON_NUM_THREADS (b3sum documents that it is respected when --num-threads is
/// absent); None leaves the default (one thread per core), which costs ~40 ms of CPU per process.
pub fn run_b3sum_env(cwd: &std::path::Path, args: &[std::ffi::OsString], stdin: &[u8], pool: Option<usize>) -> RunOut {
    use std::io::Write;
    use std::process::{Command, Stdio};
    let mut cmd = Command::new(b3sum_bin());
    match pool {
        Some(n) => cmd.env("RAYON_NUM_THREADS", n.to_string()),
        None => cmd.env_remove("RAYON_NUM_THREADS"),
    };
    let mut child = cmd
        .args(args)
        .current_dir(cwd)
        .env("RUST_BACKTRACE", "0")
        .stdin(Stdio::piped())
        .stdout(Stdio::piped())
        .stderr(Stdio::piped())
        .spawn()
        .unwrap_or_else(|e| {
            eprintln!("cannot spawn b3sum: {}", e);
            std::process::exit(2)
        });
    {
        let mut si = child.stdin.take().unwrap();
        let _ = si.write_all(stdin);
    }
    let out = child.wait_with_output().expect("wait");
    RunOut { code: out.status.code(), stdout: out.stdout, stderr: out.stderr }
}

pub fn os(s: &str) -> std::ffi::OsString {
    std::ffi::OsString::from(s)
}

pub fn scratch(tag: &str) -> std::path::PathBuf {
    let d = std::path::PathBuf::from(format!("/verif/out/b3sum-{}-{}", tag, std::process::id()));
    let _ = std::fs::remove_dir_all(&d);
    std::fs::create_dir_all(&d).expect("scratch dir under /verif/out");
    d
}
