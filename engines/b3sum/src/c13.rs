//! C13: the checkfile format round-trips and never confuses two paths; arbitrary text never panics.
use crate::refmodel::{self, Form};
use crate::{os, real, run_b3sum, scratch};
use std::collections::HashMap;
use std::ffi::OsString;
use std::os::unix::ffi::{OsStrExt, OsStringExt};
use std::path::Path;
use vcommon::serde_json::{json, Value};
use vcommon::{Args, Report};

/// Path symbols: single bytes and two multi-byte units.
fn symbols(with_nul: bool) -> Vec<Vec<u8>> {
    let mut v: Vec<Vec<u8>> = vec![
        b"a".to_vec(), b" ".to_vec(), b"\\".to_vec(), b"\n".to_vec(), b"\r".to_vec(), b")".to_vec(), b"(".to_vec(), b"=".to_vec(), b"B".to_vec(),
        vec![0xFF], "\u{FFFD}".as_bytes().to_vec(), "é".as_bytes().to_vec(),
    ];
    if with_nul {
        v.push(vec![0]);
    }
    v
}

fn seeds() -> Vec<Vec<u8>> {
    vec![
        b") = ".to_vec(), b"BLAKE3 (".to_vec(), b"a  b".to_vec(), b"  a".to_vec(), b"a  ".to_vec(), b" a".to_vec(), b"a ".to_vec(), b"BLAKE3 (x) = y".to_vec(),
        b"x) = 0123".to_vec(), b"a\\nb".to_vec(), b"\\".to_vec(), b"\\\\".to_vec(), b"a\r".to_vec(), b"a\n".to_vec(), b"\ra".to_vec(), b"\xF0\x9D\x84\x9E".to_vec(),
        b"BLAKE3 (a  b) = c  d".to_vec(), b"ordinary_name.txt".to_vec(), b"dir with  two spaces) = and (parens".to_vec(),
    ]
}

fn all_paths(max_len: usize, with_nul: bool) -> Vec<Vec<u8>> {
    let syms = symbols(with_nul);
    let mut out: Vec<Vec<u8>> = vec![];
    let mut cur: Vec<Vec<u8>> = vec![vec![]];
    for _ in 0..max_len {
        let mut next = vec![];
        for p in &cur {
            for s in &syms {
                let mut q = p.clone();
                q.extend_from_slice(s);
                next.push(q);
            }
        }
        out.extend(next.iter().cloned());
        cur = next;
    }
    out.extend(seeds());
    // long paths: every separator-like token at every offset 0..=72 of an otherwise plain name (the
    // line formats have fixed-width fields - 64 hex digits, "BLAKE3 (" - that an offset can resonate with)
    let markers: [&[u8]; 11] = [b"  ", b" ", b" *", b") = ", b"\\", b"\n", b"\\n", b"\r", b"BLAKE3 (", "é".as_bytes(), b"   "];
    for m in markers {
        for filler in [b'a', b'0'] {
            for off in 0..=72usize {
                for tail in [0usize, 1, 7] {
                    let mut q = vec![filler; off];
                    q.extend_from_slice(m);
                    q.extend(std::iter::repeat(b'b').take(tail));
                    out.push(q);
                }
            }
        }
    }
    out.sort();
    out.dedup();
    out
}

fn case(kind: &str, detail: Value, key: &str, exp: String, obs: String) -> Value {
    json!({"property": "C13", "engine": "b3sum/checkfile_format", "kind": kind, "detail": detail, "check": key, "expected": exp, "observed": obs})
}

fn hexs(b: &[u8]) -> String {
    refmodel::hex(b)
}

/// The line exactly as hash_one_input's print!/println! calls compose it (checked against the
/// real binary's output in part (b)).
fn compose(text: &str, escaped: bool, hash_hex: &str, form: Form) -> String {
    let mut line = String::new();
    if escaped {
        line.push('\\');
    }
    match form {
        Form::Plain => line.push_str(&format!("{}  {}", hash_hex, text)),
        Form::Tag => line.push_str(&format!("BLAKE3 ({}) = {}", text, hash_hex)),
    }
    line
}

/// (a1) every path of the alphabet through the real printer and the real parser.
fn direct_paths(thorough: bool, rep: &mut Report) {
    let paths = all_paths(if thorough { 5 } else { 4 }, true);
    let hash: [u8; 32] = b3spec::hash32(&b3spec::Mode::hash(), b"verif");
    let hh = hexs(&hash);
    // parsed path -> original path, per form and terminator, for the injectivity check
    let mut owner: HashMap<(u8, Vec<u8>), Vec<u8>> = HashMap::new();
    let mut sampled = 0;
    for p in &paths {
        let osp = OsString::from_vec(p.clone());
        let path = Path::new(&osp);
        for (fi, form) in [Form::Plain, Form::Tag].iter().enumerate() {
            let detail = json!({"path_hex": hexs(p), "form": format!("{:?}", form)});
            let printed = vcommon::catch(|| real::v_path_text(path));
            let (text, escaped) = match printed {
                Ok(x) => x,
                Err(m) => {
                    rep.violation("filepath_to_string:panic", format!("printing path {:?} panics: {}", String::from_utf8_lossy(p), m), case("print", detail, "filepath_to_string:panic", "no panic".into(), m));
                    continue;
                }
            };
            let line = compose(&text, escaped, &hh, *form);
            let want = refmodel::ref_print(p, &hh, *form);
            rep.inc("evaluations");
            rep.inc("distinct_nontrivial");
            if line != want {
                rep.violation("print:differs-from-documented-format", format!("path {:?}: printed {:?}, documented {:?}", String::from_utf8_lossy(p), line, want),
                    case("print", detail.clone(), "print:differs-from-documented-format", want.clone(), line.clone()));
                continue;
            }
            for (ti, term) in ["\n", "\r\n", ""].iter().enumerate() {
                let full = format!("{}{}", line, term);
                rep.inc("evaluations");
                let parsed = vcommon::catch(|| real::v_parse(&full));
                let d2 = json!({"path_hex": hexs(p), "form": format!("{:?}", form), "line": full});
                match parsed {
                    Err(m) => {
                        rep.violation("parse_check_line:panic", format!("parsing the line printed for path {:?} panics: {}", String::from_utf8_lossy(p), m), case("roundtrip", d2, "parse_check_line:panic", "no panic".into(), m));
                    }
                    Ok(Ok(pp)) => {
                        let got = pp.file_path.as_os_str().as_bytes().to_vec();
                        if !refmodel::representable(p) {
                            rep.violation("roundtrip:unrepresentable-path-accepted", format!("path {:?} (hex {}) cannot be represented but its line {:?} is accepted as {:?}", String::from_utf8_lossy(p), hexs(p), full, pp.file_path),
                                case("roundtrip", d2, "roundtrip:unrepresentable-path-accepted", "Err".into(), format!("Ok({:?})", pp.file_path)));
                        } else if got != *p || pp.hash != hash {
                            let key = "roundtrip:wrong-path-or-hash";
                            rep.violation(key, format!("line {:?} printed for {:?} parses to path {:?} hash {}", full, String::from_utf8_lossy(p), pp.file_path, hexs(&pp.hash)),
                                case("roundtrip", d2, key, format!("{:?} {}", String::from_utf8_lossy(p), hh), format!("{:?} {}", pp.file_path, hexs(&pp.hash))));
                        } else {
                            let shown = if pp.is_escaped { format!("\\{}", pp.file_string) } else { pp.file_string.clone() };
                            let _ = shown;
                        }
                        // injectivity among accepted lines
                        let k = ((fi * 3 + ti) as u8, got.clone());
                        if let Some(prev) = owner.get(&k) {
                            if prev != p {
                                rep.violation("roundtrip:two-paths-confused", format!("paths {} and {} both parse to {:?}", hexs(prev), hexs(p), pp.file_path),
                                    case("roundtrip", json!({"path_a_hex": hexs(prev), "path_b_hex": hexs(p)}), "roundtrip:two-paths-confused", "distinct".into(), "same".into()));
                            }
                        } else {
                            owner.insert(k, p.clone());
                        }
                    }
                    Ok(Err(e)) => {
                        if refmodel::representable(p) {
                            let key = if *form == Form::Tag && p.windows(2).any(|w| w == b"  ") { "parse_check_line:tag-double-space" } else { "roundtrip:valid-line-rejected" };
                            rep.violation(key, format!("line {:?} printed for the representable path {:?} is rejected: {}", full, String::from_utf8_lossy(p), e),
                                case("roundtrip", d2, key, "Ok".into(), format!("Err({})", e)));
                        }
                    }
                }
            }
            if sampled < 3 && p.len() == 4 && escaped {
                sampled += 1;
                rep.sample(json!({"kind": "roundtrip", "path": String::from_utf8_lossy(p), "path_hex": hexs(p), "form": format!("{:?}", form), "line": line}));
            }
        }
    }
    rep.add("paths_enumerated", paths.len() as u64);
}

// ASCII hex and non-hex, separators, escapes, controls, and non-ASCII characters - among them ones
// whose code point has an ASCII hex digit as its low byte (U+0130 '0', U+0135 '5', U+0161 'a',
// U+0166 'f', U+0146 'F', U+10039 '9'), which a truncating `as u8` would take for that digit.
const MUT_CHARS: [&str; 26] = ["a", "f", "g", "0", "A", "F", " ", "\\", "n", "r", "(", ")", "=", "\n", "\r", "\0", "\u{FFFD}", "é", "𝄞", "\t",
    "\u{0130}", "\u{0135}", "\u{0161}", "\u{0166}", "\u{0146}", "\u{10039}"];

fn valid_lines() -> Vec<String> {
    let h1 = hexs(&b3spec::hash32(&b3spec::Mode::hash(), b"one"));
    let h2 = "0123456789abcdef".repeat(4);
    let paths: Vec<&[u8]> = vec![b"a", b"dir/file name.txt", b"a  b", b"x\ny", b"back\\slash", b") = ", b"BLAKE3 (q", "é𝄞".as_bytes(), b" lead", b"trail \r"];
    let mut v = vec![];
    for (i, p) in paths.iter().enumerate() {
        for form in [Form::Plain, Form::Tag] {
            v.push(refmodel::ref_print(p, if i % 2 == 0 { &h1 } else { &h2 }, form));
        }
    }
    v
}

/// What the real parser did with one arbitrary line, judged against the reference parser.
fn judge_line(line: &str, rep: &mut Report, kind: &str) {
    rep.inc("evaluations");
    let r = vcommon::catch(|| real::v_parse(line));
    let rf = refmodel::ref_parse(line);
    let detail = json!({"line": line});
    match r {
        Err(m) => {
            let ascii_tail_problem = {
                // the 64-byte hash field ending in a multi-byte character
                let t = line.trim_end_matches(['\r', '\n']);
                let t = t.strip_prefix('\\').unwrap_or(t);
                let field = if let Some(a) = t.strip_prefix("BLAKE3 (") { a.rfind(") = ").map(|i| &a[i + 4..]) } else { t.find("  ").map(|i| &t[..i]) };
                matches!(field, Some(f) if f.len() == 64 && !f.is_ascii())
            };
            let key = if ascii_tail_problem { "parse_check_line:hashfield-nonascii-tail" } else { "parse_check_line:panic" };
            rep.violation(key, format!("parsing {:?} panics: {}", line, m), case(kind, detail, key, "Ok or Err".into(), format!("panic: {}", m)));
        }
        Ok(Ok(pp)) => match rf {
            Ok(want) => {
                let got_path = pp.file_path.to_string_lossy().to_string();
                if hexs(&pp.hash) != want.hash_hex || got_path != want.path {
                    rep.violation("parse_check_line:wrong-result", format!("{:?} parses to ({}, {:?}); the documented format gives ({}, {:?})", line, hexs(&pp.hash), got_path, want.hash_hex, want.path),
                        case(kind, detail, "parse_check_line:wrong-result", format!("{:?}", want), format!("{} {:?}", hexs(&pp.hash), got_path)));
                }
            }
            Err(reason) => {
                let key = if line.contains("  ") && refmodel::ref_parse(line).is_err() { "parse_check_line:accepts-malformed" } else { "parse_check_line:accepts-malformed" };
                rep.violation(key, format!("{:?} must be rejected ({}), but parses to {:?}", line, reason, pp.file_path),
                    case(kind, detail, key, format!("Err({})", reason), format!("Ok({:?})", pp.file_path)));
            }
        },
        Ok(Err(e)) => {
            // an error is always allowed for arbitrary text, except for lines b3sum itself prints
            if let Ok(want) = rf {
                let t = line.trim_end_matches(['\r', '\n']);
                let form = if t.trim_start_matches('\\').starts_with("BLAKE3 (") { Form::Tag } else { Form::Plain };
                if refmodel::ref_print(want.path.as_bytes(), &want.hash_hex, form) == t {
                    let key = if form == Form::Tag && want.path.contains("  ") { "parse_check_line:tag-double-space" } else { "roundtrip:valid-line-rejected" };
                    rep.violation(key, format!("{:?} is exactly what b3sum prints for path {:?} but is rejected: {}", line, want.path, e),
                        case(kind, detail, key, "Ok".into(), format!("Err({})", e)));
                }
            }
        }
    }
}

/// (a2) single-character mutations of valid lines and all short strings as whole lines.
fn direct_lines(thorough: bool, rep: &mut Report) {
    let lines = valid_lines();
    let mut n = 0u64;
    for l in &lines {
        let chars: Vec<char> = l.chars().collect();
        for pos in 0..=chars.len() {
            // insert / replace / delete / duplicate at every character position
            for m in MUT_CHARS.iter() {
                let mut ins: String = chars[..pos].iter().collect();
                ins.push_str(m);
                ins.extend(chars[pos..].iter());
                judge_line(&ins, rep, "mutation");
                n += 1;
                if pos < chars.len() {
                    let mut repl: String = chars[..pos].iter().collect();
                    repl.push_str(m);
                    repl.extend(chars[pos + 1..].iter());
                    judge_line(&repl, rep, "mutation");
                    n += 1;
                }
            }
            if pos < chars.len() {
                let mut del: String = chars[..pos].iter().collect();
                del.extend(chars[pos + 1..].iter());
                judge_line(&del, rep, "mutation");
                let mut dup: String = chars[..=pos].iter().collect();
                dup.extend(chars[pos..].iter());
                judge_line(&dup, rep, "mutation");
                n += 2;
            }
        }
        for term in ["\n", "\r\n", "\r", "\n\n", "\r\r\n"] {
            judge_line(&format!("{}{}", l, term), rep, "terminator");
            n += 1;
        }
    }
    // hash fields of exactly 64 bytes that end in, or contain, a multi-byte character
    let hx = "0123456789abcdef".repeat(4);
    for (keep, tail) in [(62usize, "é"), (60, "𝄞"), (61, "€"), (63, "é"), (62, "\u{00ff}"), (0, &"é".repeat(32))] {
        for form in [Form::Plain, Form::Tag] {
            let field = format!("{}{}", &hx[..keep], tail);
            let l = match form {
                Form::Plain => format!("{}  file", field),
                Form::Tag => format!("BLAKE3 (file) = {}", field),
            };
            judge_line(&l, rep, "hashfield");
            n += 1;
        }
    }
    // hash fields of exactly 64 *characters* (more than 64 bytes) with one look-alike character
    for ch in ["\u{0130}", "\u{0135}", "\u{0161}", "\u{0166}", "\u{FF10}", "\u{10039}"] {
        for pos in [0usize, 1, 31, 32, 62, 63] {
            for form in [Form::Plain, Form::Tag] {
                let mut field: Vec<char> = hx.chars().collect();
                field[pos] = ch.chars().next().unwrap();
                let field: String = field.into_iter().collect();
                let l = match form {
                    Form::Plain => format!("{}  file", field),
                    Form::Tag => format!("BLAKE3 (file) = {}", field),
                };
                judge_line(&l, rep, "hashfield");
                n += 1;
            }
        }
    }
    // all strings of length <= 3 (4 in the thorough tier) over a 12-character alphabet
    let alpha = ["a", "0", " ", "\\", "\n", "\r", "(", ")", "=", "B", "é", "\u{FFFD}"];
    let mut cur: Vec<String> = vec![String::new()];
    judge_line("", rep, "short");
    for _ in 0..(if thorough { 4 } else { 3 }) {
        let mut next = vec![];
        for s in &cur {
            for a in alpha.iter() {
                let t = format!("{}{}", s, a);
                judge_line(&t, rep, "short");
                n += 1;
                next.push(t);
            }
        }
        cur = next;
    }
    rep.add("distinct_nontrivial", n);
    rep.add("lines_judged", n);
    rep.sample(json!({"kind": "mutation", "line": format!("{}  a  b", &hx[..63]), "expect": "Err (hash field too short) and no panic"}));
}

/// (b) the real binary on real files: output lines equal the documented format, and feeding
/// them back to --check accepts exactly the representable paths.
fn binary_roundtrip(thorough: bool, rep: &mut Report) {
    let dir = scratch("c13");
    let mut names: Vec<Vec<u8>> = all_paths(if thorough { 3 } else { 2 }, false).into_iter().filter(|p| !p.is_empty() && p != b"." && p != b".." && !p.contains(&b'/') && p.len() < 200).collect();
    names.retain(|p| p != b"-");
    let mut content: HashMap<Vec<u8>, Vec<u8>> = HashMap::new();
    for (i, n) in names.iter().enumerate() {
        let c = format!("content of file #{}\n", i).into_bytes();
        let p = dir.join(Path::new(&OsString::from_vec(n.clone())));
        if std::fs::write(&p, &c).is_err() {
            continue;
        }
        content.insert(n.clone(), c);
    }
    names.retain(|n| content.contains_key(n));
    rep.add("files_created", names.len() as u64);
    for form in [Form::Plain, Form::Tag] {
        for batch in names.chunks(300) {
            let mut args: Vec<OsString> = vec![];
            if form == Form::Tag {
                args.push(os("--tag"));
            }
            args.push(os("--"));
            for n in batch {
                args.push(OsString::from_vec(n.clone()));
            }
            let out = run_b3sum(&dir, &args, b"");
            rep.inc("evaluations");
            rep.inc("process_runs");
            let mut expected = String::new();
            for n in batch {
                let h = hexs(&b3spec::hash32(&b3spec::Mode::hash(), &content[n]));
                expected.push_str(&refmodel::ref_print(n, &h, form));
                expected.push('\n');
            }
            let got = String::from_utf8_lossy(&out.stdout).to_string();
            let detail = json!({"form": format!("{:?}", form), "files": batch.len(), "first_name_hex": hexs(&batch[0])});
            if out.code != Some(0) || got != expected {
                let gl: Vec<&str> = got.split_inclusive('\n').collect();
                let el: Vec<&str> = expected.split_inclusive('\n').collect();
                let at = gl.iter().zip(el.iter()).position(|(a, b)| a != b).unwrap_or(gl.len().min(el.len()));
                rep.violation("binary:output-differs-from-documented-format", format!("b3sum {:?} output differs at line {}: got {:?}, documented {:?} (exit {:?})", form, at, gl.get(at), el.get(at), out.code),
                    case("binary-print", detail, "binary:output-differs-from-documented-format", format!("{:?}", el.get(at)), format!("{:?}", gl.get(at))));
                continue;
            }
            rep.add("distinct_nontrivial", batch.len() as u64);
            // feed the output back: representable-only checkfile must pass entirely
            let good: Vec<&Vec<u8>> = batch.iter().filter(|n| refmodel::representable(n)).collect();
            let mut cf = String::new();
            let mut want_out = String::new();
            for n in &good {
                let h = hexs(&b3spec::hash32(&b3spec::Mode::hash(), &content[*n]));
                let l = refmodel::ref_print(n, &h, form);
                cf.push_str(&l);
                cf.push('\n');
                let (text, esc) = refmodel::ref_path_text(n);
                want_out.push_str(&format!("{}{}: OK\n", if esc { "\\" } else { "" }, text));
            }
            let cfp = dir.join(".checkfile");
            std::fs::write(&cfp, &cf).unwrap();
            let chk = run_b3sum(&dir, &[os("--check"), os(".checkfile")], b"");
            rep.inc("evaluations");
            rep.inc("process_runs");
            let gotc = String::from_utf8_lossy(&chk.stdout).to_string();
            if chk.code != Some(0) || gotc != want_out {
                let gl: Vec<&str> = gotc.split_inclusive('\n').collect();
                let el: Vec<&str> = want_out.split_inclusive('\n').collect();
                let at = gl.iter().zip(el.iter()).position(|(a, b)| a != b).unwrap_or(gl.len().min(el.len()));
                let line = cf.split_inclusive('\n').nth(at).unwrap_or("").to_string();
                let key = if form == Form::Tag && line.contains("  ") && chk.code != Some(0) { "parse_check_line:tag-double-space" } else { "binary:check-rejects-own-output" };
                rep.violation(key, format!("b3sum --check on b3sum's own {:?} output: exit {:?}, first difference at entry {} ({:?}): got {:?}, want {:?}; stderr {:?}", form, chk.code, at, line, gl.get(at), el.get(at), String::from_utf8_lossy(&chk.stderr).lines().next()),
                    case("binary-check", json!({"form": format!("{:?}", form), "line": line}), key, format!("{:?}", el.get(at)), format!("{:?}", gl.get(at))));
            }
            // the full output (with unrepresentable paths) must fail, and still report every good entry
            if good.len() != batch.len() {
                std::fs::write(&cfp, &out.stdout).unwrap();
                let chk = run_b3sum(&dir, &[os("--check"), os(".checkfile")], b"");
                rep.inc("evaluations");
                rep.inc("process_runs");
                let gotc = String::from_utf8_lossy(&chk.stdout).to_string();
                let oks = gotc.lines().filter(|l| l.ends_with(": OK")).count();
                if chk.code == Some(0) || chk.code.is_none() || chk.code == Some(101) || oks != good.len() {
                    rep.violation("binary:unrepresentable-paths-not-rejected-cleanly", format!("checkfile with {} unrepresentable of {} entries: exit {:?}, {} OK lines (want non-zero exit, {} OK)", batch.len() - good.len(), batch.len(), chk.code, oks, good.len()),
                        case("binary-check-mixed", json!({"form": format!("{:?}", form)}), "binary:unrepresentable-paths-not-rejected-cleanly", format!("exit 1, {} OK", good.len()), format!("exit {:?}, {} OK", chk.code, oks)));
                }
            }
        }
    }
    let _ = std::fs::remove_dir_all(&dir);
    rep.sample(json!({"kind": "binary", "files": names.len(), "forms": ["plain", "--tag"], "then": "--check on the output"}));
}

pub fn run(args: &Args, rep: &mut Report) {
    let t = args.thorough();
    direct_paths(t, rep);
    direct_lines(t, rep);
    binary_roundtrip(t, rep);
    rep.rule = format!("(a1) every path of length 1..{} over 13 symbols (a, space, backslash, LF, CR, parens, =, B, 0xFF, U+FFFD, e-acute, NUL) plus 19 seeds, printed by the real filepath_to_string in both forms with LF / CRLF / no terminator and parsed back by the real parse_check_line: documented format, round trip iff representable, injectivity; (a2) every single-character insert/replace/delete/duplicate with 26 characters (incl. non-ASCII ones whose low byte is a hex digit) at every position of 20 valid lines, multi-byte hash fields, all strings of length <= {} over 12 characters: never a panic, Ok only with the documented result, own output never rejected; (b) the real binary on {} real files in both forms and --check on its output; non-trivial = distinct (path, form) and distinct lines", if t { 5 } else { 4 }, if t { 4 } else { 3 }, if t { "~2200" } else { "~190" });
    rep.assumptions.push("Unix path semantics; the print formats of hash_one_input are re-composed in (a1) and verified on the real binary in (b)".into());
}

pub fn replay(_args: &Args, v: &Value) -> bool {
    let args = Args { prop: "C13".into(), tier: "quick".into(), seed: 1, report: String::new(), replay: None, jobs: 1, extra: Default::default() };
    let mut rep = Report::new(&args, "replay", "exploration");
    match v["kind"].as_str().unwrap_or("") {
        "mutation" | "short" | "terminator" | "hashfield" => {
            judge_line(v["detail"]["line"].as_str().unwrap_or(""), &mut rep, "mutation");
        }
        "print" | "roundtrip" => direct_paths(false, &mut rep),
        _ => binary_roundtrip(false, &mut rep),
    }
    for x in rep.violations.iter().take(3) {
        println!("violation {}: {}", x.key, x.summary);
    }
    rep.violations.iter().any(|x| Some(x.key.as_str()) == v["check"].as_str())
}
