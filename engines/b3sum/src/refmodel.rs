//! Reference printer / parser for the b3sum checkfile format, written from
//! b3sum/what_does_check_do.md and the statement of property C13 - not from the code.
//! (The document predates `\r` escaping and `--tag`; both are taken from the property statement:
//! backslash, LF and CR are escaped; the tagged form is `BLAKE3 (<file>) = <hash>`.)

#[derive(Clone, Copy, Debug, PartialEq, Eq)]
pub enum Form {
    Plain,
    Tag,
}

pub fn hex(b: &[u8]) -> String {
    let mut s = String::new();
    for x in b {
        s.push_str(&format!("{:02x}", x));
    }
    s
}

/// Rules 2-4: lossy UTF-8, escape `\`, LF, CR; a line with an escape is prefixed by one backslash.
pub fn ref_path_text(path: &[u8]) -> (String, bool) {
    let lossy = String::from_utf8_lossy(path).to_string();
    let mut out = String::new();
    let mut escaped = false;
    for c in lossy.chars() {
        match c {
            '\\' => {
                out.push_str("\\\\");
                escaped = true;
            }
            '\n' => {
                out.push_str("\\n");
                escaped = true;
            }
            '\r' => {
                out.push_str("\\r");
                escaped = true;
            }
            c => out.push(c),
        }
    }
    (out, escaped)
}

/// The line (without terminator) b3sum prints for `path` with `hash_hex`.
pub fn ref_print(path: &[u8], hash_hex: &str, form: Form) -> String {
    let (text, escaped) = ref_path_text(path);
    let mut line = String::new();
    if escaped {
        line.push('\\');
    }
    match form {
        Form::Plain => {
            line.push_str(hash_hex);
            line.push_str("  ");
            line.push_str(&text);
        }
        Form::Tag => {
            line.push_str("BLAKE3 (");
            line.push_str(&text);
            line.push_str(") = ");
            line.push_str(hash_hex);
        }
    }
    line
}

/// A path can be checked iff it is valid Unicode, non-empty, without U+FFFD and NUL.
pub fn representable(path: &[u8]) -> bool {
    match std::str::from_utf8(path) {
        Ok(s) => !s.is_empty() && !s.contains('\u{FFFD}') && !s.contains('\0'),
        Err(_) => false,
    }
}

#[derive(Debug, PartialEq, Eq, Clone)]
pub struct RefParsed {
    pub hash_hex: String,
    pub path: String,
    /// the path text as it stands in the line (what --check echoes), with the leading backslash if any
    pub shown: String,
}

/// Rules 5-7 plus the tagged form. Err(reason) names the malformed class.
pub fn ref_parse(line: &str) -> Result<RefParsed, &'static str> {
    let line = line.trim_end_matches(['\r', '\n']);
    if line.is_empty() {
        return Err("empty line");
    }
    let (escaped, rest) = match line.strip_prefix('\\') {
        Some(r) => (true, r),
        None => (false, line),
    };
    // A plain line starts with 64 hex digits, a tagged one with "BLAKE3 (": the two never overlap.
    let (hash, file) = if let Some(after) = rest.strip_prefix("BLAKE3 (") {
        match after.rfind(") = ") {
            Some(i) => (&after[i + 4..], &after[..i]),
            None => match rest.find("  ") {
                // not a tagged line after all; as a plain line its hash field cannot be valid
                Some(_) => return Err("hash field"),
                None => return Err("format"),
            },
        }
    } else {
        match rest.find("  ") {
            Some(i) => (&rest[..i], &rest[i + 2..]),
            None => return Err("format"),
        }
    };
    if hash.len() != 64 || !hash.bytes().all(|b| b.is_ascii_digit() || (b'a'..=b'f').contains(&b)) {
        return Err("hash field");
    }
    let path = if escaped {
        let mut out = String::new();
        let mut it = file.chars();
        while let Some(c) = it.next() {
            if c == '\\' {
                match it.next() {
                    Some('n') => out.push('\n'),
                    Some('r') => out.push('\r'),
                    Some('\\') => out.push('\\'),
                    Some(_) => return Err("invalid escape"),
                    None => return Err("dangling escape"),
                }
            } else {
                out.push(c);
            }
        }
        out
    } else {
        file.to_string()
    };
    if path.is_empty() {
        return Err("empty path");
    }
    if path.contains('\0') {
        return Err("NUL");
    }
    if path.contains('\u{FFFD}') {
        return Err("U+FFFD");
    }
    let shown = if escaped { format!("\\{}", file) } else { file.to_string() };
    Ok(RefParsed { hash_hex: hash.to_string(), path, shown })
}

#[cfg(test)]
mod tests {
    use super::*;
    #[test]
    fn basics() {
        let h = "a".repeat(64);
        assert_eq!(ref_parse(&format!("{}  x", h)).unwrap().path, "x");
        assert_eq!(ref_parse(&format!("BLAKE3 (a  b) = {}", h)).unwrap().path, "a  b");
        assert_eq!(ref_parse(&format!("\\{}  x\\ny", h)).unwrap().path, "x\ny");
        assert!(ref_parse(&format!("{} x", h)).is_err());
        assert!(ref_parse("").is_err());
        assert_eq!(ref_print(b"a\nb", &h, Form::Tag), format!("\\BLAKE3 (a\\nb) = {}", h));
    }
}
