//! C12: the real b3sum binary. (1) digest bytes for flag combinations equal the spec stream;
//! (2) --check over checkfiles enumerated as sequences of line kinds: exit status, per-entry
//! lines, warning count, no abnormal termination.
use crate::refmodel::{self, Form};
use crate::{os, run_b3sum, run_b3sum_env, scratch, RunOut};
use std::ffi::OsString;
use std::path::{Path, PathBuf};
use std::sync::Mutex;
use vcommon::serde_json::{json, Value};
use vcommon::{Args, Report};

const KEY: &[u8; 32] = vcommon::TEST_KEY;
const CONTEXT: &str = "b3sum verif context 2026";

#[derive(Clone, Copy, Debug, PartialEq, Eq)]
enum ModeK {
    Plain,
    Keyed,
    Derive,
}
#[derive(Clone, Copy, Debug, PartialEq, Eq)]
enum OutK {
    Names,
    NoNames,
    Raw,
    Tag,
}

#[derive(Clone, Debug)]
struct HashCase {
    size: usize,
    mode: ModeK,
    length: u64,
    seek: u64,
    no_mmap: bool,
    threads: Option<usize>,
    out: OutK,
    via_stdin: bool,
}

const SIZES: [usize; 9] = [0, 1, 64, 1025, 16383, 16384, 16385, 65537, 200_000];
const LENGTHS: [u64; 9] = [0, 1, 31, 32, 33, 64, 65, 131, 1000];
const MODES: [ModeK; 3] = [ModeK::Plain, ModeK::Keyed, ModeK::Derive];
const OUTS: [OutK; 4] = [OutK::Names, OutK::NoNames, OutK::Raw, OutK::Tag];
const THREADS: [Option<usize>; 3] = [None, Some(1), Some(2)];

fn seeks(length: u64) -> [u64; 8] {
    [0, 1, 63, 64, 65, 64 * (1u64 << 32) - 1, 64 * (1u64 << 32), u64::MAX - length]
}

fn base() -> HashCase {
    HashCase { size: 1025, mode: ModeK::Plain, length: 32, seek: 0, no_mmap: false, threads: None, out: OutK::Names, via_stdin: false }
}

fn with_axis(c: &HashCase, axis: usize, i: usize) -> Option<HashCase> {
    let mut n = c.clone();
    match axis {
        0 => n.size = *SIZES.get(i)?,
        1 => n.mode = *MODES.get(i)?,
        2 => n.length = *LENGTHS.get(i)?,
        3 => {
            if i >= 8 {
                return None;
            }
            n.seek = i as u64 + 1_000_000; // placeholder resolved below (depends on length)
        }
        4 => {
            if i >= 2 {
                return None;
            }
            n.no_mmap = i == 1
        }
        5 => n.threads = *THREADS.get(i)?,
        6 => n.out = *OUTS.get(i)?,
        _ => return None,
    }
    Some(n)
}

fn resolve_seek(c: &mut HashCase) {
    if c.seek >= 1_000_000 && c.seek < 1_000_008 {
        c.seek = seeks(c.length)[(c.seek - 1_000_000) as usize];
    }
    if (c.seek as u128) + (c.length as u128) > u64::MAX as u128 {
        c.seek = u64::MAX - c.length;
    }
}

fn hash_cases(thorough: bool) -> Vec<HashCase> {
    let mut v = vec![];
    if thorough {
        for &size in &SIZES {
            for &mode in &MODES {
                for &length in &LENGTHS {
                    for si in 0..8 {
                        for no_mmap in [false, true] {
                            for &threads in &THREADS {
                                for &out in &OUTS {
                                    let mut c = HashCase { size, mode, length, seek: 1_000_000 + si, no_mmap, threads, out, via_stdin: false };
                                    resolve_seek(&mut c);
                                    v.push(c);
                                }
                            }
                        }
                    }
                }
            }
        }
    } else {
        // all pairs of axis values, the other axes at their base value (covers every single-axis sweep)
        let b = base();
        for a1 in 0..7 {
            for a2 in (a1 + 1)..7 {
                for i in 0..9 {
                    let Some(c1) = with_axis(&b, a1, i) else { continue };
                    for j in 0..9 {
                        let Some(mut c2) = with_axis(&c1, a2, j) else { continue };
                        resolve_seek(&mut c2);
                        v.push(c2);
                    }
                }
            }
        }
    }
    // long outputs (raw and hex): lengths well beyond one block / one stdout buffer
    for &length in &[1024u64, 1025, 2047, 2048, 2049, 4096, 8193, 65537, 1 << 20] {
        for &seek in &[0u64, 63, 64 * (1u64 << 32) - 1] {
            for &out in &[OutK::Raw, OutK::Names] {
                for &(size, mode) in &[(1025usize, ModeK::Plain), (0, ModeK::Keyed), (65537, ModeK::Derive)] {
                    if !thorough && length > 8193 && (out == OutK::Names && seek != 0) {
                        continue;
                    }
                    v.push(HashCase { size, mode, length, seek, no_mmap: false, threads: Some(1), out, via_stdin: false });
                }
            }
        }
    }
    // stdin as the input (plain and derive modes; keyed mode needs stdin for the key)
    for &size in &[0usize, 1, 1025, 65537, 200_000] {
        for mode in [ModeK::Plain, ModeK::Derive] {
            for &out in &OUTS {
                v.push(HashCase { size, mode, length: 65, seek: 63, no_mmap: false, threads: None, out, via_stdin: true });
            }
        }
    }
    v
}

fn spec_mode(m: ModeK) -> b3spec::Mode {
    match m {
        ModeK::Plain => b3spec::Mode::hash(),
        ModeK::Keyed => b3spec::Mode::keyed(KEY),
        ModeK::Derive => b3spec::Mode::derive(CONTEXT.as_bytes()),
    }
}

fn case_json(c: &HashCase) -> Value {
    json!({"size": c.size, "mode": format!("{:?}", c.mode), "length": c.length.to_string(), "seek": c.seek.to_string(), "no_mmap": c.no_mmap,
           "num_threads": c.threads, "output": format!("{:?}", c.out), "stdin": c.via_stdin})
}

fn run_hash_case(dir: &Path, c: &HashCase, data: &[u8]) -> (RunOut, Vec<u8>) {
    let name = format!("f{}", c.size);
    let mut args: Vec<OsString> = vec![];
    match c.mode {
        ModeK::Plain => {}
        ModeK::Keyed => args.push(os("--keyed")),
        ModeK::Derive => {
            args.push(os("--derive-key"));
            args.push(os(CONTEXT));
        }
    }
    args.push(os("--length"));
    args.push(os(&c.length.to_string()));
    if c.seek != 0 {
        args.push(os("--seek"));
        args.push(os(&c.seek.to_string()));
    }
    if c.no_mmap {
        args.push(os("--no-mmap"));
    }
    if let Some(t) = c.threads {
        args.push(os("--num-threads"));
        args.push(os(&t.to_string()));
    }
    match c.out {
        OutK::Names => {}
        OutK::NoNames => args.push(os("--no-names")),
        OutK::Raw => args.push(os("--raw")),
        OutK::Tag => args.push(os("--tag")),
    }
    let stdin: Vec<u8> = if c.via_stdin {
        data[..c.size].to_vec()
    } else {
        args.push(os(&name));
        if c.mode == ModeK::Keyed { KEY.to_vec() } else { vec![] }
    };
    // the default pool (one thread per core) only where multithreading can matter
    let pool = if c.threads.is_none() && c.size >= 65537 { None } else { Some(3) };
    let out = run_b3sum_env(dir, &args, &stdin, pool);
    let digest = b3spec::xof(&spec_mode(c.mode), &data[..c.size], c.seek, c.length as usize);
    let shown = if c.via_stdin { "-".to_string() } else { name };
    let expected: Vec<u8> = match c.out {
        OutK::Raw => digest,
        OutK::NoNames => format!("{}\n", refmodel::hex(&digest)).into_bytes(),
        OutK::Names => format!("{}  {}\n", refmodel::hex(&digest), shown).into_bytes(),
        OutK::Tag => format!("BLAKE3 ({}) = {}\n", shown, refmodel::hex(&digest)).into_bytes(),
    };
    (out, expected)
}

fn viol(rep: &mut Report, key: &str, what: String, kind: &str, detail: Value) {
    rep.violation(key, what, json!({"property": "C12", "engine": "b3sum/cli", "kind": kind, "detail": detail, "check": key}));
}

fn check_hash_case(dir: &Path, c: &HashCase, data: &[u8], rep: &mut Report) {
    let (out, expected) = run_hash_case(dir, c, data);
    rep.inc("evaluations");
    rep.inc("process_runs");
    rep.inc("spec_comparisons");
    rep.inc("distinct_nontrivial");
    if out.code != Some(0) {
        viol(rep, "hash:nonzero-exit", format!("b3sum {:?} exits {:?}: {}", c, out.code, String::from_utf8_lossy(&out.stderr).lines().next().unwrap_or("")), "hash", case_json(c));
    } else if out.stdout != expected {
        let at = out.stdout.iter().zip(expected.iter()).position(|(a, b)| a != b).unwrap_or(out.stdout.len().min(expected.len()));
        viol(rep, "hash:wrong-output", format!("b3sum {:?}: stdout ({} bytes) differs from the spec output ({} bytes) at byte {}", c, out.stdout.len(), expected.len(), at), "hash", case_json(c));
    }
}

// ---------------------------------------------------------------------------------------------
// --check

#[derive(Clone, Copy, Debug, PartialEq, Eq)]
enum Kind {
    GoodPlain,
    GoodTag,
    GoodEscaped,
    GoodCrlf,
    GoodTagSpaces,
    Stale,
    Missing,
    Empty,
    ShortHash,
    UpperHex,
    NonAsciiHash,
    DanglingEscape,
    Nul,
    Replacement,
    SingleSpace,
}

const KINDS: [Kind; 15] = [Kind::GoodPlain, Kind::GoodTag, Kind::GoodEscaped, Kind::GoodCrlf, Kind::GoodTagSpaces, Kind::Stale, Kind::Missing, Kind::Empty,
    Kind::ShortHash, Kind::UpperHex, Kind::NonAsciiHash, Kind::DanglingEscape, Kind::Nul, Kind::Replacement, Kind::SingleSpace];
const KINDS7: [Kind; 7] = [Kind::GoodPlain, Kind::GoodEscaped, Kind::Stale, Kind::Missing, Kind::NonAsciiHash, Kind::UpperHex, Kind::GoodTagSpaces];

#[derive(PartialEq, Eq, Clone, Copy, Debug)]
enum Verdict {
    Ok,
    Failed,
    Malformed,
}

struct Entry {
    line: String,
    verdict: Verdict,
    shown: String,
}

fn file_hash(content: &[u8]) -> String {
    refmodel::hex(&b3spec::hash32(&b3spec::Mode::hash(), content))
}

/// The checkfile line of kind `k` at position `i` (each position has its own files).
fn entry(k: Kind, i: usize) -> Entry {
    let good = format!("good{}", i);
    let h = file_hash(good_content(i).as_slice());
    match k {
        Kind::GoodPlain => Entry { line: format!("{}  {}\n", h, good), verdict: Verdict::Ok, shown: good },
        Kind::GoodTag => Entry { line: format!("BLAKE3 ({}) = {}\n", good, h), verdict: Verdict::Ok, shown: good },
        Kind::GoodCrlf => Entry { line: format!("{}  {}\r\n", h, good), verdict: Verdict::Ok, shown: good },
        Kind::GoodEscaped => {
            let name = format!("esc\n{}\\", i);
            let (t, _) = refmodel::ref_path_text(name.as_bytes());
            Entry { line: format!("\\{}  {}\n", h, t), verdict: Verdict::Ok, shown: format!("\\{}", t) }
        }
        Kind::GoodTagSpaces => {
            let name = format!("two  spaces {}", i);
            Entry { line: format!("BLAKE3 ({}) = {}\n", name, h), verdict: Verdict::Ok, shown: name }
        }
        Kind::Stale => Entry { line: format!("{}  {}\n", file_hash(b"something else"), good), verdict: Verdict::Failed, shown: good },
        Kind::Missing => Entry { line: format!("{}  missing{}\n", h, i), verdict: Verdict::Failed, shown: format!("missing{}", i) },
        Kind::Empty => Entry { line: "\n".into(), verdict: Verdict::Malformed, shown: String::new() },
        Kind::ShortHash => Entry { line: format!("{}  {}\n", &h[..63], good), verdict: Verdict::Malformed, shown: String::new() },
        Kind::UpperHex => Entry { line: format!("{}  {}\n", h.to_uppercase().replace(|c: char| c.is_ascii_digit(), "A"), good), verdict: Verdict::Malformed, shown: String::new() },
        Kind::NonAsciiHash => Entry { line: format!("{}é  {}\n", &h[..62], good), verdict: Verdict::Malformed, shown: String::new() },
        Kind::DanglingEscape => Entry { line: format!("\\{}  {}\\\n", h, good), verdict: Verdict::Malformed, shown: String::new() },
        Kind::Nul => Entry { line: format!("{}  go\0od{}\n", h, i), verdict: Verdict::Malformed, shown: String::new() },
        Kind::Replacement => Entry { line: format!("{}  go\u{FFFD}d{}\n", h, i), verdict: Verdict::Malformed, shown: String::new() },
        Kind::SingleSpace => Entry { line: format!("{} {}\n", h, good), verdict: Verdict::Malformed, shown: String::new() },
    }
}

fn good_content(i: usize) -> Vec<u8> {
    // position 1 gets a file above the mmap threshold
    let n = if i == 1 { 20_000 } else { 40 + i };
    (0..n).map(|j| ((j * 7 + i) % 251) as u8).collect()
}

fn prepare_check_dir(dir: &Path) {
    for i in 0..4 {
        let c = good_content(i);
        std::fs::write(dir.join(format!("good{}", i)), &c).unwrap();
        std::fs::write(dir.join(format!("esc\n{}\\", i)), &c).unwrap();
        std::fs::write(dir.join(format!("two  spaces {}", i)), &c).unwrap();
    }
}

fn check_seq(dir: &Path, seqs: &[Vec<Kind>], quiet: bool, tag: &str, rep: &mut Report) {
    // one checkfile per sequence; one or two checkfiles per invocation
    let mut files = vec![];
    let mut entries: Vec<Entry> = vec![];
    for (fi, seq) in seqs.iter().enumerate() {
        let name = format!("check-{}-{}.b3", tag, fi);
        let mut text = String::new();
        for (i, k) in seq.iter().enumerate() {
            let e = entry(*k, i);
            text.push_str(&e.line);
            entries.push(e);
        }
        std::fs::write(dir.join(&name), text.as_bytes()).unwrap();
        files.push(name);
    }
    let mut args = vec![os("--check")];
    if quiet {
        args.push(os("--quiet"));
    }
    for f in &files {
        args.push(os(f));
    }
    let out = run_b3sum(dir, &args, b"");
    for f in &files {
        let _ = std::fs::remove_file(dir.join(f));
    }
    rep.inc("evaluations");
    rep.inc("process_runs");
    rep.inc("schedules");
    let bad = entries.iter().filter(|e| e.verdict != Verdict::Ok).count();
    if bad > 0 || seqs.iter().map(|s| s.len()).sum::<usize>() > 1 {
        rep.inc("distinct_nontrivial");
    }
    let detail = json!({"checkfiles": seqs.iter().map(|s| s.iter().map(|k| format!("{:?}", k)).collect::<Vec<_>>()).collect::<Vec<_>>(), "quiet": quiet});
    let stdout = String::from_utf8_lossy(&out.stdout).to_string();
    let stderr = String::from_utf8_lossy(&out.stderr).to_string();
    // no abnormal termination
    let has_nonascii_hash = seqs.iter().flatten().any(|k| *k == Kind::NonAsciiHash);
    // abnormal = killed by a signal, or a Rust panic (exit 101 / "panicked at"); which non-zero
    // status a failing run uses is not part of the property
    let panicked = out.code == Some(101) || stderr.contains("panicked at");
    match out.code {
        Some(_) if !panicked => {}
        other => {
            let key = if has_nonascii_hash { "parse_check_line:hashfield-nonascii-tail" } else { "check:abnormal-termination" };
            viol(rep, key, format!("b3sum --check {} terminates abnormally (exit {:?}): {}", detail, other, stderr.lines().last().unwrap_or("")), "check", detail);
            return;
        }
    }
    // exit status 0 iff every line is good
    if (out.code == Some(0)) != (bad == 0) {
        let has_tag_spaces = seqs.iter().flatten().any(|k| *k == Kind::GoodTagSpaces);
        let key = if bad == 0 && has_tag_spaces { "parse_check_line:tag-double-space" } else { "check:exit-status-lies" };
        viol(rep, key, format!("b3sum --check {}: exit {:?} with {} bad entr(y/ies)", detail, out.code, bad), "check", detail);
        return;
    }
    // one line per non-malformed entry, in order
    let mut want = String::new();
    for e in &entries {
        match e.verdict {
            Verdict::Ok if !quiet => want.push_str(&format!("{}: OK\n", e.shown)),
            Verdict::Failed => want.push_str(&format!("{}: FAILED", e.shown)),
            _ => {}
        }
        if e.verdict == Verdict::Failed {
            want.push('\u{1}'); // marker: rest of the FAILED line is free text
        }
    }
    let got_lines: Vec<&str> = stdout.split_inclusive('\n').collect();
    let mut gi = 0;
    let mut okay = true;
    for w in want.split_inclusive(|c| c == '\n' || c == '\u{1}') {
        let g = match got_lines.get(gi) {
            Some(g) => *g,
            None => {
                okay = false;
                break;
            }
        };
        if let Some(prefix) = w.strip_suffix('\u{1}') {
            if !(g.starts_with(prefix) && g.ends_with('\n') && (g.len() == prefix.len() + 1 || g[prefix.len()..].starts_with(" ("))) {
                okay = false;
                break;
            }
        } else if g != w {
            okay = false;
            break;
        }
        gi += 1;
    }
    if gi != got_lines.len() {
        okay = false;
    }
    if !okay {
        viol(rep, "check:wrong-report-lines", format!("b3sum --check {}: stdout {:?}, expected pattern {:?}", detail, stdout, want.replace('\u{1}', "[ (reason)]\n")), "check", detail);
        return;
    }
    // diagnostics: one per malformed line, and the warning carries the count
    let malformed = entries.iter().filter(|e| e.verdict == Verdict::Malformed).count();
    let diag = stderr.lines().filter(|l| l.starts_with("b3sum: ") && !l.contains("WARNING")).count();
    if diag != malformed {
        viol(rep, "check:diagnostics-missing", format!("b3sum --check {}: {} diagnostics on stderr for {} malformed lines: {:?}", detail, diag, malformed, stderr), "check", detail);
        return;
    }
    if bad > 0 {
        let w = format!("WARNING: {} computed checksum{} did NOT match", bad, if bad == 1 { "" } else { "s" });
        if !stderr.contains(&w) {
            viol(rep, "check:warning-count-wrong", format!("b3sum --check {}: expected {:?} on stderr, got {:?}", detail, w, stderr), "check", detail);
        }
    }
}

fn sequences(kinds: &[Kind], len: usize) -> Vec<Vec<Kind>> {
    let mut cur: Vec<Vec<Kind>> = vec![vec![]];
    for _ in 0..len {
        let mut next = vec![];
        for s in &cur {
            for k in kinds {
                let mut n = s.clone();
                n.push(*k);
                next.push(n);
            }
        }
        cur = next;
    }
    cur
}

fn key_cases(dir: &Path, rep: &mut Report) {
    // keys of every interesting length on stdin: only 32 bytes is accepted
    for n in [0usize, 1, 31, 32, 33, 64] {
        let key: Vec<u8> = (0..n).map(|i| KEY[i % 32]).collect();
        let out = run_b3sum(dir, &[os("--keyed"), os("f1025")], &key);
        rep.inc("evaluations");
        rep.inc("process_runs");
        rep.inc("distinct_nontrivial");
        let ok = if n == 32 { out.code == Some(0) && !out.stdout.is_empty() } else { out.code != Some(0) && out.code.is_some() && out.code != Some(101) && out.stdout.is_empty() };
        if !ok {
            viol(rep, "keyed:key-length-handling", format!("--keyed with a {}-byte key on stdin: exit {:?}, {} stdout bytes", n, out.code, out.stdout.len()), "key", json!({"key_len": n}));
        }
    }
    // `-` cannot be hashed in keyed mode
    let out = run_b3sum(dir, &[os("--keyed"), os("-")], KEY);
    rep.inc("evaluations");
    rep.inc("process_runs");
    if out.code == Some(0) || out.code.is_none() || out.code == Some(101) {
        viol(rep, "keyed:stdin-input-accepted", format!("--keyed - : exit {:?}", out.code), "key", json!({"arg": "-"}));
    }
}

fn multi_file(dir: &Path, data: &[u8], rep: &mut Report) {
    // several files per invocation, one of them missing: every existing file is still hashed, exit non-zero
    let names = ["f0", "f1", "nonexistent", "f16384", "f200000"];
    let args: Vec<OsString> = names.iter().map(|n| os(n)).collect();
    let out = run_b3sum(dir, &args, b"");
    rep.inc("evaluations");
    rep.inc("process_runs");
    rep.inc("distinct_nontrivial");
    let mut want = String::new();
    for n in names {
        if n == "nonexistent" {
            continue;
        }
        let size: usize = n[1..].parse().unwrap();
        want.push_str(&format!("{}  {}\n", refmodel::hex(&b3spec::hash32(&b3spec::Mode::hash(), &data[..size])), n));
    }
    if out.code == Some(0) || out.code.is_none() || out.code == Some(101) || String::from_utf8_lossy(&out.stdout) != want {
        viol(rep, "hash:multi-file", format!("b3sum {:?}: exit {:?}, stdout {:?}", names, out.code, String::from_utf8_lossy(&out.stdout)), "multi", json!({"names": names}));
    }
    // --raw allows a single input only
    let out = run_b3sum(dir, &[os("--raw"), os("f0"), os("f1")], b"");
    rep.inc("evaluations");
    rep.inc("process_runs");
    if out.code == Some(0) || out.code == Some(101) || !out.stdout.is_empty() {
        viol(rep, "hash:raw-multi-accepted", format!("--raw with two files: exit {:?}", out.code), "multi", json!({"raw": 2}));
    }
    // an unreadable / non-UTF-8 / directory checkfile only has to give a non-zero exit status
    std::fs::write(dir.join("latin1.b3"), b"\xff\xfe not utf8\n").unwrap();
    for cf in ["latin1.b3", ".", "no-such-checkfile"] {
        let out = run_b3sum(dir, &[os("--check"), os(cf)], b"");
        rep.inc("evaluations");
        rep.inc("process_runs");
        rep.inc("distinct_nontrivial");
        if out.code == Some(0) || out.code.is_none() {
            viol(rep, "check:unreadable-checkfile-exit-zero", format!("--check {}: exit {:?}", cf, out.code), "checkfile", json!({"checkfile": cf}));
        }
    }
    // a non-UTF-8 line *after* a good entry, and between two good checkfiles
    let h = file_hash(&good_content(0));
    std::fs::write(dir.join("mixed.b3"), [format!("{}  good0\n", h).as_bytes(), b"\xff\xff  good0\n".as_slice()].concat()).unwrap();
    std::fs::write(dir.join("ok.b3"), format!("{}  good0\n", h)).unwrap();
    for argv in [vec!["mixed.b3"], vec!["ok.b3", "latin1.b3", "ok.b3"], vec!["ok.b3", "mixed.b3"]] {
        let mut a = vec![os("--check")];
        a.extend(argv.iter().map(|s| os(s)));
        let out = run_b3sum(dir, &a, b"");
        rep.inc("evaluations");
        rep.inc("process_runs");
        rep.inc("distinct_nontrivial");
        if out.code == Some(0) || out.code.is_none() {
            viol(rep, "check:unreadable-checkfile-exit-zero", format!("--check {:?}: exit {:?}", argv, out.code), "checkfile", json!({"checkfiles": argv}));
        }
    }
}

/// Input that arrives in pieces (pipes, FIFOs, terminals): the digest must not depend on how the
/// reads are cut. Burst boundaries are the environment's answers, enumerated.
fn bursty_inputs(dir: &Path, data: &[u8], rep: &mut Report) {
    let total = 150_000usize;
    let d = &data[..total];
    let want_hex = crate::refmodel::hex(&b3spec::hash32(&b3spec::Mode::hash(), d));
    let cuts: Vec<Vec<usize>> = vec![vec![1000, 60_000], vec![1], vec![65_535], vec![65_536, 65_537], vec![16_384, 16_385, 100_000], vec![149_999], vec![64, 128, 1024, 1025, 2048]];
    for cut in &cuts {
        let mut bursts: Vec<&[u8]> = vec![];
        let mut at = 0;
        for &c in cut {
            // pieces of at most 60000 bytes so that one write fits the pipe buffer
            let mut a = at;
            while a < c {
                let e = (a + 60_000).min(c);
                bursts.push(&d[a..e]);
                a = e;
            }
            at = c;
        }
        let mut a = at;
        while a < total {
            let e = (a + 60_000).min(total);
            bursts.push(&d[a..e]);
            a = e;
        }
        for (what, argv) in [("stdin", vec![]), ("stdin as -", vec![os("-")]), ("stdin --no-mmap", vec![os("--no-mmap")])] {
            rep.inc("evaluations");
            rep.inc("distinct_nontrivial");
            rep.inc("bursty_input_runs");
            let out = crate::run_b3sum_bursts(dir, &argv, &bursts);
            let want = format!("{}  -\n", want_hex);
            if out.code != Some(0) || out.stdout != want.as_bytes() {
                viol(rep, "hash:bursty-input", format!("b3sum on {} delivered in bursts cut at {:?}: exit {:?}, stdout {:?}, expected {:?}", what, cut, out.code, String::from_utf8_lossy(&out.stdout), want), "bursty", json!({"input": what, "cuts": cut}));
            }
        }
        for (what, argv) in [("a FIFO", vec![]), ("a FIFO --no-mmap", vec![os("--no-mmap")])] {
            rep.inc("evaluations");
            rep.inc("bursty_input_runs");
            if let Some(out) = crate::run_b3sum_fifo(dir, &argv, "fifo_in", &bursts) {
                let want = format!("{}  fifo_in\n", want_hex);
                if out.code != Some(0) || out.stdout != want.as_bytes() {
                    viol(rep, "hash:bursty-input", format!("b3sum on {} delivered in bursts cut at {:?}: exit {:?}, stdout {:?}, expected {:?}", what, cut, out.code, String::from_utf8_lossy(&out.stdout), want), "bursty", json!({"input": what, "cuts": cut}));
                }
            }
        }
    }
}

/// Files that cannot be mapped (b3sum maps by default and must fall back to reading from the start)
/// and files that report size 0 but have content.
fn special_files(dir: &Path, rep: &mut Report) {
    for path in ["/sys/kernel/btf/vmlinux", "/proc/version", "/proc/self/status"] {
        // /proc/self/* differs between processes: only stable files are compared
        if path.starts_with("/proc/self") {
            continue;
        }
        let content = match std::fs::read(path) {
            Ok(c) if !content_is_empty(&c) => c,
            _ => continue,
        };
        for (what, mut argv) in [("default (mmap)", vec![]), ("--no-mmap", vec![os("--no-mmap")]), ("--length 40 --seek 7", vec![os("--length"), os("40"), os("--seek"), os("7")])] {
            argv.push(os(path));
            let out = run_b3sum(dir, &argv, b"");
            rep.inc("evaluations");
            rep.inc("distinct_nontrivial");
            rep.inc("process_runs");
            let (seek, len) = if what.contains("--seek") { (7u64, 40usize) } else { (0, 32) };
            let want = format!("{}  {}\n", refmodel::hex(&b3spec::xof(&b3spec::Mode::hash(), &content, seek, len)), path);
            if out.code != Some(0) || out.stdout != want.as_bytes() {
                viol(rep, "hash:special-file", format!("b3sum {} on {} ({} bytes): exit {:?}, stdout {:?}, expected {:?}", what, path, content.len(), out.code, String::from_utf8_lossy(&out.stdout), want), "special", json!({"path": path, "args": what}));
            }
        }
    }
}

fn content_is_empty(c: &[u8]) -> bool {
    c.is_empty()
}

/// Many failing entries in one run: the exit status must stay non-zero whatever the count is
/// (255, 256, 257, 512 - a status derived from the count would wrap), in one checkfile and spread
/// over two; and the same for 256 missing inputs in hashing mode.
fn many_failures(dir: &Path, rep: &mut Report) {
    let stale = file_hash(b"not the content");
    std::fs::write(dir.join("manyf"), b"content").unwrap();
    let line = format!("{}  manyf\n", stale);
    for (what, counts) in [("one checkfile", vec![255usize]), ("one checkfile", vec![256]), ("one checkfile", vec![257]), ("one checkfile", vec![512]), ("two checkfiles", vec![128, 128]), ("two checkfiles", vec![255, 1])] {
        let mut args = vec![os("--check"), os("--quiet")];
        for (i, c) in counts.iter().enumerate() {
            let name = format!("many-{}.b3", i);
            std::fs::write(dir.join(&name), line.repeat(*c)).unwrap();
            args.push(os(&name));
        }
        let out = run_b3sum(dir, &args, b"");
        rep.inc("evaluations");
        rep.inc("distinct_nontrivial");
        rep.inc("process_runs");
        let total: usize = counts.iter().sum();
        let failed_lines = String::from_utf8_lossy(&out.stdout).lines().filter(|l| l.ends_with("FAILED")).count();
        if out.code == Some(0) || out.code.is_none() || out.code == Some(101) || failed_lines != total {
            viol(rep, "check:exit-status-lies", format!("b3sum --check with {} failing entries in {} ({:?}): exit {:?}, {} FAILED lines", total, what, counts, out.code, failed_lines), "many-failures", json!({"counts": counts}));
        }
    }
    let mut args: Vec<OsString> = vec![];
    for i in 0..256 {
        args.push(os(&format!("no-such-file-{}", i)));
    }
    let out = run_b3sum(dir, &args, b"");
    rep.inc("evaluations");
    rep.inc("process_runs");
    if out.code == Some(0) || out.code.is_none() || out.code == Some(101) {
        viol(rep, "hash:exit-status-lies", format!("b3sum on 256 missing inputs: exit {:?}", out.code), "many-failures", json!({"missing_inputs": 256}));
    }
}

pub fn run(args: &Args, rep: &mut Report) {
    let t = args.thorough();
    let dir = scratch("c12");
    let data = vcommon::stream_b(args.seed, 200_000);
    for &s in &SIZES {
        std::fs::write(dir.join(format!("f{}", s)), &data[..s]).unwrap();
    }
    prepare_check_dir(&dir);
    // (1) hashing
    let cases = hash_cases(t);
    let shared = Mutex::new(());
    let _ = shared;
    let t0 = std::time::Instant::now();
    // process creation does not scale across cores in this sandbox (it gets slower): two workers
    let jobs = args.jobs.min(2);
    let r = vcommon::par_run(jobs, cases, rep, |c, local| check_hash_case(&dir, c, &data, local));
    rep.merge(r);
    let _ = t0;
    key_cases(&dir, rep);
    multi_file(&dir, &data, rep);
    bursty_inputs(&dir, &data, rep);
    many_failures(&dir, rep);
    special_files(&dir, rep);
    // (2) --check: sequences of line kinds
    let mut work: Vec<(Vec<Vec<Kind>>, bool)> = vec![];
    for len in 1..=(if t { 3 } else { 2 }) {
        for s in sequences(&KINDS, len) {
            work.push((vec![s.clone()], false));
            if len <= 2 {
                work.push((vec![s], true));
            }
        }
    }
    for s in sequences(&KINDS7, if t { 4 } else { 3 }) {
        work.push((vec![s], false));
    }
    // two checkfiles per run: every pair of single-line checkfiles
    for a in KINDS {
        for b in KINDS {
            work.push((vec![vec![a], vec![b]], false));
        }
    }
    let counter = std::sync::atomic::AtomicUsize::new(0);
    let r = vcommon::par_run(jobs, work, rep, |(seqs, quiet), local| {
        let id = counter.fetch_add(1, std::sync::atomic::Ordering::SeqCst);
        check_seq(&dir, seqs, *quiet, &id.to_string(), local);
    });
    rep.merge(r);
    let _ = std::fs::remove_dir_all(&dir);
    rep.rule = format!("(1) b3sum run on files: {} of size x mode (plain, --keyed with key on stdin, --derive-key) x --length x --seek (incl. 64*2^32 and 2^64-1-length) x --no-mmap x --num-threads x output form (names, --no-names, --raw, --tag), plus stdin input, stdin and a FIFO delivering 150000 bytes in bursts cut at seven boundary sets (each burst written only after the previous one was consumed, so b3sum's reads come back short exactly there), an unmappable sysfs file and a size-0 procfs file (default, --no-mmap, --length/--seek), key lengths 0..64, several files with one missing; stdout must equal the spec stream S[seek..seek+length] in the documented form; (2) --check on checkfiles enumerated as sequences of 15 line kinds (5 good forms, stale, missing, 8 malformed): all sequences of length <= {} (and {} over 7 kinds), with and without --quiet, and all pairs of checkfiles: exit 0 iff all good, one OK/FAILED line per entry in order, one diagnostic per malformed line, correct warning count, never abnormal termination (a signal or a panic; which non-zero status is used is not judged); 255 / 256 / 257 / 512 failing entries in one run and 256 missing inputs must still exit non-zero; non-trivial = distinct invocations",
        if t { "the full product" } else { "all pairs of axis values (others at base)" }, if t { 3 } else { 2 }, if t { "length 4" } else { "length 3" });
    rep.sample(json!({"kind": "hash", "argv": ["--keyed", "--length", "131", "--seek", "274877906943", "--no-mmap", "--tag", "f16385"], "stdin": "32-byte key"}));
    rep.sample(json!({"kind": "check", "checkfile": ["GoodEscaped", "NonAsciiHash", "GoodTagSpaces"], "expect": "exit 1, two OK lines, one diagnostic, WARNING: 1"}));
    rep.assumptions.push("file contents from stream B; the CLI is built from /repo/b3sum/src/main.rs with clap's derive feature only and a stand-in `wild` (Unix behaviour)".into());
}

pub fn replay(args: &Args, v: &Value) -> bool {
    // re-run the quick enumeration and look for the same key: a few seconds, deterministic
    let a = Args { prop: "C12".into(), tier: "quick".into(), seed: args.seed, report: String::new(), replay: None, jobs: args.jobs, extra: Default::default() };
    let mut rep = Report::new(&a, "replay", "fault_enumeration");
    run(&a, &mut rep);
    for x in rep.violations.iter().take(3) {
        println!("violation {}: {}", x.key, x.summary);
    }
    rep.violations.iter().any(|x| Some(x.key.as_str()) == v["check"].as_str())
}
