//! Builds the C library from /repo/c (current working tree) in one of three flavours.
use std::path::Path;

fn main() {
    let c = Path::new("/repo/c");
    let intr = std::env::var_os("CARGO_FEATURE_INTRINSICS").is_some();
    let portable = std::env::var_os("CARGO_FEATURE_PORTABLE_ONLY").is_some();
    let base = |name: &str| {
        let mut b = cc::Build::new();
        b.flag("-std=c11").include(c).warnings(false).define("BLAKE3_TESTING", None).opt_level(2).flag("-g");
        b.emit_rerun_if_env_changed(false);
        if portable {
            for d in ["BLAKE3_NO_SSE2", "BLAKE3_NO_SSE41", "BLAKE3_NO_AVX2", "BLAKE3_NO_AVX512"] {
                b.define(d, None);
            }
        }
        let _ = name;
        b
    };
    let mut core = base("core");
    core.file(c.join("blake3.c")).file(c.join("blake3_dispatch.c")).file(c.join("blake3_portable.c")).file("csrc/verif_shim.c");
    core.compile("blake3_c_core");
    if !portable {
        if intr {
            for (f, flags) in [
                ("blake3_sse2.c", vec!["-msse2"]),
                ("blake3_sse41.c", vec!["-msse4.1"]),
                ("blake3_avx2.c", vec!["-mavx2"]),
                ("blake3_avx512.c", vec!["-mavx512f", "-mavx512vl"]),
            ] {
                let mut b = base(f);
                b.file(c.join(f));
                for fl in flags {
                    b.flag(fl);
                }
                b.compile(&format!("blake3_c_{}", f.replace('.', "_")));
            }
        } else {
            let mut b = base("asm");
            for f in ["blake3_sse2_x86-64_unix.S", "blake3_sse41_x86-64_unix.S", "blake3_avx2_x86-64_unix.S", "blake3_avx512_x86-64_unix.S"] {
                b.file(c.join(f));
            }
            b.flag("-mavx512f").flag("-mavx512vl");
            b.compile("blake3_c_asm");
        }
    }
    for entry in std::fs::read_dir(c).unwrap() {
        println!("cargo::rerun-if-changed={}", entry.unwrap().path().display());
    }
    println!("cargo::rerun-if-changed=csrc/verif_shim.c");
    println!("cargo::rerun-if-changed=build.rs");
}
