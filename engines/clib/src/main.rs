//! vclib - C06: explicit-state exploration of the real `blake3_hasher` (C library built from
//! /repo/c by build.rs, in the assembly / C-intrinsics / portable-only flavour), under every
//! dispatch mask settable through upstream's BLAKE3_TESTING seam `g_cpu_features`.
use std::collections::{HashMap, HashSet, VecDeque};
use vcommon::serde_json::{json, Value};
use vcommon::{Args, Report};

#[repr(C)]
#[derive(Clone, Copy)]
pub struct ChunkState {
    pub cv: [u32; 8],
    pub chunk_counter: u64,
    pub buf: [u8; 64],
    pub buf_len: u8,
    pub blocks_compressed: u8,
    pub flags: u8,
}

#[repr(C)]
#[derive(Clone, Copy)]
pub struct Hasher {
    pub key: [u32; 8],
    pub chunk: ChunkState,
    pub cv_stack_len: u8,
    pub cv_stack: [u8; 55 * 32],
}

extern "C" {
    fn blake3_hasher_init(h: *mut Hasher);
    fn blake3_hasher_init_keyed(h: *mut Hasher, key: *const u8);
    fn blake3_hasher_init_derive_key(h: *mut Hasher, context: *const libc::c_char);
    fn blake3_hasher_init_derive_key_raw(h: *mut Hasher, context: *const libc::c_void, len: usize);
    fn blake3_hasher_update(h: *mut Hasher, input: *const libc::c_void, len: usize);
    fn blake3_hasher_finalize(h: *const Hasher, out: *mut u8, out_len: usize);
    fn blake3_hasher_finalize_seek(h: *const Hasher, seek: u64, out: *mut u8, out_len: usize);
    fn blake3_hasher_reset(h: *mut Hasher);
    fn blake3_xof_many(cv: *const u32, block: *const u8, block_len: u8, counter: u64, flags: u8, out: *mut u8, outblocks: usize);
    fn verif_set_features(f: libc::c_int);
    fn verif_get_features() -> libc::c_int;
    fn verif_sizeof_hasher() -> usize;
    fn verif_offsetof_cv_stack_len() -> usize;
    fn verif_offsetof_cv_stack() -> usize;
    fn verif_offsetof_chunk() -> usize;
    fn verif_simd_degree() -> usize;
}

const SSE2: i32 = 1;
const SSSE3: i32 = 2;
const SSE41: i32 = 4;
const AVX: i32 = 8;
const AVX2: i32 = 16;
const AVX512F: i32 = 32;
const AVX512VL: i32 = 64;
const UNDEFINED: i32 = 1 << 30;

fn flavour() -> &'static str {
    if cfg!(feature = "portable_only") {
        "portable_only"
    } else if cfg!(feature = "intrinsics") {
        "c_intrinsics"
    } else {
        "unix_asm"
    }
}

/// Dispatch masks this CPU can execute (discovered through the library's own detection).
fn masks() -> Vec<(&'static str, i32)> {
    unsafe {
        verif_set_features(UNDEFINED);
        // a first call runs CPUID detection and caches it
        let mut h = std::mem::zeroed::<Hasher>();
        blake3_hasher_init(&mut h);
        let _ = verif_simd_degree();
        let real = verif_get_features();
        let mut v = vec![("portable", 0)];
        if cfg!(feature = "portable_only") {
            return v;
        }
        let cands = [
            ("sse2", SSE2),
            ("sse41", SSE2 | SSSE3 | SSE41),
            ("avx2", SSE2 | SSSE3 | SSE41 | AVX | AVX2),
            ("avx512", SSE2 | SSSE3 | SSE41 | AVX | AVX2 | AVX512F | AVX512VL),
        ];
        for (n, m) in cands {
            if real & m == m {
                v.push((n, m));
            }
        }
        v
    }
}

#[derive(Clone, Debug, PartialEq, Eq, Hash)]
enum Mode {
    Hash,
    Keyed([u8; 32]),
    Derive(String),
    DeriveRaw(String),
}

impl Mode {
    fn name(&self) -> String {
        match self {
            Mode::Hash => "hash".into(),
            Mode::Keyed(_) => "keyed".into(),
            Mode::Derive(_) => "derive".into(),
            Mode::DeriveRaw(_) => "derive_raw".into(),
        }
    }
    fn json(&self) -> Value {
        match self {
            Mode::Hash => json!({"kind": "hash"}),
            Mode::Keyed(k) => json!({"kind": "keyed", "key_hex": vcommon::hex(k)}),
            Mode::Derive(c) => json!({"kind": "derive", "context": c}),
            Mode::DeriveRaw(c) => json!({"kind": "derive_raw", "context": c}),
        }
    }
    fn from_json(v: &Value) -> Mode {
        match v["kind"].as_str().unwrap_or("hash") {
            "keyed" => {
                let h = v["key_hex"].as_str().unwrap();
                let mut k = [0u8; 32];
                for i in 0..32 {
                    k[i] = u8::from_str_radix(&h[2 * i..2 * i + 2], 16).unwrap();
                }
                Mode::Keyed(k)
            }
            "derive" => Mode::Derive(v["context"].as_str().unwrap().into()),
            "derive_raw" => Mode::DeriveRaw(v["context"].as_str().unwrap().into()),
            _ => Mode::Hash,
        }
    }
    fn spec(&self) -> b3spec::Mode {
        match self {
            Mode::Hash => b3spec::Mode::hash(),
            Mode::Keyed(k) => b3spec::Mode::keyed(k),
            Mode::Derive(c) | Mode::DeriveRaw(c) => b3spec::Mode::derive(c.as_bytes()),
        }
    }
    fn init(&self) -> Hasher {
        unsafe {
            // poison the object first: init must not depend on prior contents
            let mut h: Hasher = std::mem::transmute([0xA5u8; std::mem::size_of::<Hasher>()]);
            match self {
                Mode::Hash => blake3_hasher_init(&mut h),
                Mode::Keyed(k) => blake3_hasher_init_keyed(&mut h, k.as_ptr()),
                Mode::Derive(c) => {
                    let cs = std::ffi::CString::new(c.as_str()).unwrap();
                    blake3_hasher_init_derive_key(&mut h, cs.as_ptr());
                }
                Mode::DeriveRaw(c) => blake3_hasher_init_derive_key_raw(&mut h, c.as_ptr() as *const _, c.len()),
            }
            h
        }
    }
}

/// The live bytes of the public struct.
fn live(h: &Hasher) -> Vec<u8> {
    let mut out = Vec::with_capacity(256 + 32 * h.cv_stack_len as usize);
    for w in h.key {
        out.extend_from_slice(&w.to_le_bytes());
    }
    for w in h.chunk.cv {
        out.extend_from_slice(&w.to_le_bytes());
    }
    out.extend_from_slice(&h.chunk.chunk_counter.to_le_bytes());
    out.extend_from_slice(&h.chunk.buf);
    out.push(h.chunk.buf_len);
    out.push(h.chunk.blocks_compressed);
    out.push(h.chunk.flags);
    out.push(h.cv_stack_len);
    let n = (h.cv_stack_len as usize).min(55);
    out.extend_from_slice(&h.cv_stack[..n * 32]);
    out
}

fn all_bytes(h: &Hasher) -> Vec<u8> {
    // only the defined fields (padding excluded): live bytes plus the dead stack slots
    let mut v = live(h);
    v.extend_from_slice(&h.cv_stack);
    v
}

#[derive(Clone, Copy, Debug, PartialEq, Eq)]
enum Op {
    Update(usize),
    Reset,
}

impl Op {
    fn json(&self) -> Value {
        match self {
            Op::Update(k) => json!(["update", k]),
            Op::Reset => json!(["reset"]),
        }
    }
}

const FINE: [usize; 12] = [0, 1, 2, 63, 64, 65, 127, 128, 960, 1023, 1024, 1025];
const COARSE: [usize; 12] = [1024, 2048, 3072, 4096, 7168, 8192, 16384, 17408, 32768, 65536, 131072, 262144];
const COARSE_DEV: [usize; 4] = [1, 1023, 1025, 17 * 1024 + 1];

#[derive(Clone, Debug)]
struct Cfg {
    name: String,
    moves: Vec<usize>,
    deviations: Vec<usize>,
    max_dev: u32,
    max_total: usize,
}

/// (seek, out_len) probes evaluated in every state.
fn probes() -> Vec<(u64, usize)> {
    vec![
        (0, 0), (0, 1), (0, 32), (0, 64), (0, 65), (0, 131), (1, 64), (63, 2), (64, 64), (65, 130), (100, 31), (1000, 0),
        (64 * (1u64 << 32) - 65, 131), (64 * ((1u64 << 32) - 16) - 1, 64 * 17 + 2), (u64::MAX - 70, 70), (u64::MAX, 0),
        // a 16-block batch that *starts* 1..15 blocks below a carry boundary (2^32) or below 2^31
        // (where a carry detector looking at the sign bit would trip)
        (64 * ((1u64 << 32) - 1), 64 * 16), (64 * ((1u64 << 32) - 5), 64 * 16 + 1), (64 * ((1u64 << 32) - 9) - 3, 64 * 17), (64 * ((1u64 << 32) - 13), 64 * 16),
        (64 * ((1u64 << 31) - 3), 64 * 16 + 7), (64 * ((1u64 << 31) - 11) - 1, 64 * 17),
    ]
}

struct Ctx<'a> {
    cfg: &'a Cfg,
    mode: &'a Mode,
    lname: &'a str,
    data: &'a [u8],
    oracle: b3spec::StreamOracle,
    fresh_live: Vec<u8>,
    arena: Vec<(usize, Op)>,
}

impl<'a> Ctx<'a> {
    fn path(&self, mut n: usize) -> Vec<Op> {
        let mut v = vec![];
        while n != 0 {
            v.push(self.arena[n].1);
            n = self.arena[n].0;
        }
        v.reverse();
        v
    }
    fn rj(&self, node: usize, extra: Option<Op>, key: &str, exp: String, obs: String) -> Value {
        let mut ops: Vec<Value> = self.path(node).iter().map(|o| o.json()).collect();
        if let Some(o) = extra {
            ops.push(o.json());
        }
        json!({"property": "C06", "engine": "clib/hasher_bfs", "subject": "blake3_hasher", "alphabet": self.cfg.name,
               "config": {"flavour": flavour(), "level": self.lname}, "mode": self.mode.json(), "stream": "A", "ops": ops,
               "check": key, "expected": exp, "observed": obs})
    }
}

type V3 = Option<(String, String, String)>;

/// All invariants of one state (c bytes absorbed).
fn check_state(cx: &mut Ctx, h: &Hasher, c: usize, rep: &mut Report) -> V3 {
    let before = all_bytes(h);
    let node = cx.oracle.prefix(c);
    for (seek, n) in probes() {
        if (seek as u128) + (n as u128) > u64::MAX as u128 {
            continue;
        }
        rep.inc("queries");
        rep.inc("spec_comparisons");
        // the output region sits inside a larger buffer, wide canaries on both sides (an overrun of a
        // few blocks must land in the canary, not in the allocator's metadata)
        const PRE: usize = 256;
        const POST: usize = 4096;
        let mut buf = vec![0xC3u8; PRE + n + POST];
        unsafe {
            if seek == 0 && n % 2 == 0 {
                blake3_hasher_finalize(h, buf.as_mut_ptr().add(PRE), n);
            } else {
                blake3_hasher_finalize_seek(h, seek, buf.as_mut_ptr().add(PRE), n);
            }
        }
        if buf[..PRE].iter().any(|b| *b != 0xC3) || buf[PRE + n..].iter().any(|b| *b != 0xC3) {
            return Some(("finalize:writes-outside-out_len".into(), format!("exactly {} bytes written", n), "canary overwritten".into()));
        }
        let exp = node.root_bytes(seek, n);
        if buf[PRE..PRE + n] != exp[..] {
            let at = buf[PRE..PRE + n].iter().zip(exp.iter()).position(|(a, b)| a != b).unwrap_or(0);
            return Some((
                "finalize_seek:mismatch".into(),
                format!("S[{}..+{}] (first difference at +{}: {})", seek, n, at, vcommon::hex(&exp[at..(at + 8).min(n)])),
                vcommon::hex(&buf[PRE + at..PRE + (at + 8).min(n)]),
            ));
        }
        // finalize(out, n) and finalize_seek(0, out, n) agree
        if seek == 0 && n > 0 && n % 2 == 0 {
            let mut b2 = vec![0u8; n];
            unsafe { blake3_hasher_finalize_seek(h, 0, b2.as_mut_ptr(), n) };
            if b2[..] != exp[..] {
                return Some(("finalize_seek(0):differs-from-finalize".into(), "same bytes".into(), "differ".into()));
            }
        }
    }
    if all_bytes(h) != before {
        return Some(("finalize:mutates-hasher".into(), "hasher unchanged".into(), "bytes differ".into()));
    }
    // zero-length updates are no-ops on the bytes (NULL and a dangling non-null pointer)
    let mut z = *h;
    unsafe {
        blake3_hasher_update(&mut z, std::ptr::null(), 0);
        blake3_hasher_update(&mut z, std::ptr::NonNull::<u8>::dangling().as_ptr() as *const _, 0);
        blake3_hasher_update(&mut z, cx.data.as_ptr() as *const _, 0);
    }
    if all_bytes(&z) != before {
        return Some(("update(len=0):changes-state".into(), "no-op".into(), "bytes differ".into()));
    }
    if h.cv_stack_len as usize > 55 || h.chunk.buf_len > 64 || h.chunk.blocks_compressed > 16 {
        return Some(("invariant:field-out-of-range".into(), "cv_stack_len<=55, buf_len<=64, blocks<=16".into(), format!("{} {} {}", h.cv_stack_len, h.chunk.buf_len, h.chunk.blocks_compressed)));
    }
    None
}

fn explore(cfg: &Cfg, mode: &Mode, lname: &str, rep: &mut Report) {
    let data = vcommon::stream_a(cfg.max_total + 1024);
    let fresh = mode.init();
    let mut cx = Ctx { cfg, mode, lname, data: &data, oracle: b3spec::StreamOracle::new(mode.spec(), data.clone()), fresh_live: live(&fresh), arena: vec![(0, Op::Reset)] };
    // the two derive-key initialisers reach byte-identical states
    if let Mode::Derive(c) | Mode::DeriveRaw(c) = mode {
        let a = Mode::Derive(c.clone()).init();
        let b = Mode::DeriveRaw(c.clone()).init();
        rep.inc("evaluations");
        if live(&a) != live(&b) {
            let rj = cx.rj(0, None, "init_derive_key:differs-from-raw", "identical states".into(), "states differ".into());
            rep.violation("init_derive_key:differs-from-raw", format!("init_derive_key and init_derive_key_raw differ for context {:?} at {}", c, lname), rj);
        }
    }
    let mut seen: HashMap<(u128, usize, u32), ()> = HashMap::new();
    seen.insert((vcommon::fingerprint(&cx.fresh_live), 0, 0), ());
    rep.inc("states");
    let mut queue: VecDeque<(Hasher, usize, u32, u32, u32, usize)> = VecDeque::new(); // hasher, c, dev, depth, updates, node
    if let Some((k, e, o)) = check_state(&mut cx, &fresh, 0, rep) {
        let rj = cx.rj(0, None, &k, e.clone(), o.clone());
        rep.violation(&k, format!("fresh {} hasher at {}/{}: expected {}, observed {}", mode.name(), flavour(), lname, e, o), rj);
    } else {
        queue.push_back((fresh, 0, 0, 0, 0, 0));
    }
    let mut obs: HashSet<u128> = HashSet::new();
    let mut sampled = false;
    while let Some((h, c, dev, depth, updates, node)) = queue.pop_front() {
        let before = all_bytes(&h);
        let mut ops: Vec<(Op, u32)> = vec![];
        for &k in &cfg.moves {
            if c + k <= cfg.max_total {
                ops.push((Op::Update(k), 0));
            }
        }
        if dev < cfg.max_dev {
            for &k in &cfg.deviations {
                if c + k <= cfg.max_total {
                    ops.push((Op::Update(k), 1));
                }
            }
        }
        if c > 0 {
            ops.push((Op::Reset, 0));
        }
        for (op, cost) in ops {
            let mut s = h;
            rep.inc("transitions");
            rep.inc("evaluations");
            let nc = match op {
                Op::Update(k) => {
                    unsafe { blake3_hasher_update(&mut s, data[c..].as_ptr() as *const _, k) };
                    c + k
                }
                Op::Reset => {
                    unsafe { blake3_hasher_reset(&mut s) };
                    0
                }
            };
            if op == Op::Reset {
                rep.inc("reset_checks");
                if live(&s) != cx.fresh_live {
                    let rj = cx.rj(node, Some(op), "reset:state-differs-from-fresh", "live bytes of a freshly initialised hasher".into(), "differ".into());
                    rep.violation("reset:state-differs-from-fresh", format!("{} reset after {} bytes at {}/{} differs from a fresh hasher", mode.name(), c, flavour(), lname), rj);
                    continue;
                }
            }
            let lv = live(&s);
            obs.insert(vcommon::fingerprint(&lv));
            let key = (vcommon::fingerprint(&lv), nc, dev + cost);
            if seen.contains_key(&key) {
                rep.inc("merges");
                continue;
            }
            seen.insert(key, ());
            rep.inc("states");
            cx.arena.push((node, op));
            let nn = cx.arena.len() - 1;
            rep.max("max_path_len", (depth + 1) as u64);
            let nupd = updates + matches!(op, Op::Update(_)) as u32;
            if nupd >= 2 {
                rep.inc("distinct_nontrivial");
            }
            if let Some((k, e, o)) = check_state(&mut cx, &s, nc, rep) {
                let rj = cx.rj(nn, None, &k, e.clone(), o.clone());
                rep.violation(&k, format!("{} {} at {}/{} after {:?}: expected {}, observed {}", mode.name(), k, flavour(), lname, cx.path(nn), e, o), rj);
                continue;
            }
            if !sampled && depth + 1 == 4 {
                sampled = true;
                rep.sample(json!({"mode": mode.json(), "flavour": flavour(), "level": lname, "alphabet": cfg.name,
                    "ops": cx.path(nn).iter().map(|o| o.json()).collect::<Vec<_>>(), "checked": "finalize/finalize_seek at 16 (seek,len) probes vs spec, purity, zero-length no-ops, canaries"}));
            }
            queue.push_back((s, nc, dev + cost, depth + 1, nupd, nn));
        }
        if all_bytes(&h) != before {
            let rj = cx.rj(node, None, "copy:aliasing", "unchanged".into(), "changed".into());
            rep.violation("copy:aliasing", "operating on copies changed the original".into(), rj);
        }
    }
    rep.add("distinct_observations", obs.len() as u64);
}

fn modes() -> Vec<Mode> {
    vec![Mode::Hash, Mode::Keyed(*vcommon::TEST_KEY), Mode::Derive(vcommon::TEST_CONTEXT.into()), Mode::DeriveRaw(vcommon::TEST_CONTEXT.into()), Mode::DeriveRaw("ключ 🔑 clé".into())]
}

fn cfgs(t: bool) -> Vec<Cfg> {
    vec![
        Cfg { name: "fine".into(), moves: FINE.to_vec(), deviations: vec![], max_dev: 0, max_total: if t { 20 * 1024 } else { 8 * 1024 } },
        Cfg { name: "coarse".into(), moves: COARSE.to_vec(), deviations: COARSE_DEV.to_vec(), max_dev: if t { 3 } else { 2 }, max_total: if t { 1100 * 1024 } else { 300 * 1024 } },
    ]
}

fn run(args: &Args, rep: &mut Report) {
    let t = args.thorough();
    // struct layout sanity: the Rust mirror must match the C definition (machinery, not a verdict)
    unsafe {
        let h = std::mem::zeroed::<Hasher>();
        let base = &h as *const _ as usize;
        if verif_sizeof_hasher() != std::mem::size_of::<Hasher>()
            || verif_offsetof_cv_stack_len() != (&h.cv_stack_len as *const _ as usize - base)
            || verif_offsetof_cv_stack() != (&h.cv_stack as *const _ as usize - base)
            || verif_offsetof_chunk() != (&h.chunk as *const _ as usize - base)
        {
            eprintln!("blake3_hasher layout differs from the harness mirror");
            std::process::exit(2);
        }
    }
    let levels = masks();
    for (lname, mask) in &levels {
        // g_cpu_features is process-global: levels run one after the other, cells of one level in parallel
        unsafe { verif_set_features(*mask) };
        let mut work = vec![];
        for c in cfgs(t) {
            for m in modes() {
                work.push((c.clone(), m));
            }
        }
        let r = vcommon::par_run(args.jobs, work, rep, |(c, m), local| explore(c, m, lname, local));
        rep.merge(r);
        // the dispatcher asked for zero output blocks writes nothing (at every mask)
        {
            let cv = [0x01234567u32; 8];
            let block = [0x5au8; 64];
            let mut out = vec![0xEEu8; 256];
            unsafe { blake3_xof_many(cv.as_ptr(), block.as_ptr(), 64, 0, 0x08, out.as_mut_ptr().add(64), 0) };
            rep.inc("evaluations");
            rep.inc("zero_block_xof_calls");
            if out.iter().any(|b| *b != 0xEE) {
                rep.violation("xof_many:zero-blocks-writes", format!("blake3_xof_many(outblocks = 0) at {} writes to its output buffer", lname),
                    json!({"property": "C06", "engine": "clib/hasher_bfs", "zero_blocks": {"level": lname}, "check": "xof_many:zero-blocks-writes"}));
            }
        }
        if unsafe { verif_get_features() } != *mask {
            eprintln!("g_cpu_features changed under the harness");
            std::process::exit(2);
        }
    }
    if args.extra.contains_key("huge") {
        huge(rep);
        rep.notes.push("4 GiB lane: a keyed blake3_hasher at the widest mask fed 2^32+3149 bytes in one update and cut at 2^32-1; finalize_seek(63, 130) vs the spec".into());
    }
    let tr = rep.get("transitions");
    rep.counters.insert("traces_validated_against_impl".into(), tr);
    rep.configs.push(json!({"flavour": flavour(), "levels": levels.iter().map(|l| l.0).collect::<Vec<_>>()}));
    rep.rule = "BFS over the real blake3_hasher from each initialiser (init, init_keyed, init_derive_key, init_derive_key_raw): update(next k bytes) over the fine alphabet (all paths, bounded total) and the coarse alphabet (deviation-bounded), reset from every state, merged on the live bytes of the struct; in every state finalize / finalize_seek at 22 (seek, out_len) probes (out_len 0 included, canaries around the output) vs the spec stream, queries leave every byte unchanged, zero-length updates (NULL, dangling, valid pointer) are no-ops, reset equals a fresh hasher, the two derive-key initialisers agree; for every dispatch mask the CPU supports; non-trivial = states reached by >= 2 updates".into();
    rep.extra.insert("bounds".into(), json!(cfgs(t).iter().map(|c| json!({"alphabet": c.name, "moves": c.moves, "deviations": c.deviations, "max_deviations": c.max_dev, "max_total_bytes": c.max_total})).collect::<Vec<_>>()));
    rep.assumptions.push("input content is stream A; 64-bit size_t".into());
    rep.assumptions.push("agreement with the Rust crate follows from both being compared with the same spec model on the same case space (C01-C03)".into());
}

/// One input beyond 4 GiB at the widest dispatch mask (size_t / uint64_t arithmetic on lengths,
/// chunk counters and the subtree split): one update call, and the same bytes cut at 2^32 - 1.
fn huge(rep: &mut Report) {
    let levels = masks();
    let (lname, mask) = *levels.last().unwrap();
    unsafe { verif_set_features(mask) };
    let n = (1usize << 32) + 3 * 1024 + 77;
    let period: Vec<u8> = (0..251 * 4096).map(|i| (i % 251) as u8).collect();
    let mut data = Vec::with_capacity(n);
    while data.len() < n {
        let take = (n - data.len()).min(period.len());
        data.extend_from_slice(&period[..take]);
    }
    let mode = Mode::Keyed(*vcommon::TEST_KEY);
    let exp = b3spec::node_parallel16(&mode.spec(), &data, 1 << 28).root_bytes(63, 130);
    for pieces in [vec![n], vec![(1usize << 32) - 1, 1, n - (1usize << 32)]] {
        rep.inc("evaluations");
        rep.inc("distinct_nontrivial");
        rep.inc("spec_comparisons");
        rep.inc("huge_histories");
        let mut h = mode.init();
        let mut at = 0usize;
        for &k in &pieces {
            unsafe { blake3_hasher_update(&mut h, data[at..].as_ptr() as *const _, k) };
            at += k;
        }
        let mut out = vec![0u8; 130];
        unsafe { blake3_hasher_finalize_seek(&h, 63, out.as_mut_ptr(), 130) };
        if out != exp {
            rep.violation("update:huge-input", format!("{} keyed hasher fed {} bytes as {:?}: finalize_seek(63, 130) differs from the spec", lname, n, pieces),
                json!({"property": "C06", "engine": "clib/hasher_bfs", "huge": {"pieces": pieces, "level": lname}, "check": "update:huge-input"}));
        }
    }
}

fn replay(v: &Value) -> bool {
    if v["zero_blocks"].is_object() {
        let level = v["zero_blocks"]["level"].as_str().unwrap_or("portable");
        let lv = masks().into_iter().find(|l| l.0 == level).expect("level not available");
        unsafe { verif_set_features(lv.1) };
        let cv = [0x01234567u32; 8];
        let block = [0x5au8; 64];
        let mut out = vec![0xEEu8; 256];
        unsafe { blake3_xof_many(cv.as_ptr(), block.as_ptr(), 64, 0, 0x08, out.as_mut_ptr().add(64), 0) };
        let bad = out.iter().any(|b| *b != 0xEE);
        println!("blake3_xof_many(outblocks = 0) wrote: {}", bad);
        return bad;
    }
    if v["huge"].is_object() {
        let args = Args { prop: "C06".into(), tier: "quick".into(), seed: 1, report: String::new(), replay: None, jobs: 1, extra: Default::default() };
        let mut rep = Report::new(&args, "replay", "model_checking");
        huge(&mut rep);
        for x in rep.violations.iter().take(3) {
            println!("violation {}: {}", x.key, x.summary);
        }
        return !rep.violations.is_empty();
    }
    let mode = Mode::from_json(&v["mode"]);
    let level = v["config"]["level"].as_str().unwrap_or("portable");
    let lv = masks().into_iter().find(|l| l.0 == level).expect("level not available");
    unsafe { verif_set_features(lv.1) };
    let ops: Vec<Op> = v["ops"].as_array().unwrap().iter().map(|o| if o[0] == "reset" { Op::Reset } else { Op::Update(o[1].as_u64().unwrap() as usize) }).collect();
    let total: usize = ops.iter().map(|o| if let Op::Update(k) = o { *k } else { 0 }).sum();
    let cfg = Cfg { name: "replay".into(), moves: vec![], deviations: vec![], max_dev: 0, max_total: total + 1024 };
    let data = vcommon::stream_a(total + 2048);
    let mut cx = Ctx { cfg: &cfg, mode: &mode, lname: level, data: &data, oracle: b3spec::StreamOracle::new(mode.spec(), data.clone()), fresh_live: live(&mode.init()), arena: vec![(0, Op::Reset)] };
    let args = Args { prop: "C06".into(), tier: "quick".into(), seed: 1, report: String::new(), replay: None, jobs: 1, extra: Default::default() };
    let mut rep = Report::new(&args, "replay", "model_checking");
    let mut h = mode.init();
    let mut c = 0usize;
    let mut found: Vec<(String, String, String)> = vec![];
    if let Mode::Derive(cs) | Mode::DeriveRaw(cs) = &mode {
        if live(&Mode::Derive(cs.clone()).init()) != live(&Mode::DeriveRaw(cs.clone()).init()) {
            found.push(("init_derive_key:differs-from-raw".into(), "identical".into(), "differ".into()));
        }
    }
    if let Some(x) = check_state(&mut cx, &h, 0, &mut rep) {
        found.push(x);
    }
    for op in ops {
        if !found.is_empty() {
            break;
        }
        match op {
            Op::Update(k) => {
                unsafe { blake3_hasher_update(&mut h, data[c..].as_ptr() as *const _, k) };
                c += k;
            }
            Op::Reset => {
                unsafe { blake3_hasher_reset(&mut h) };
                c = 0;
                if live(&h) != cx.fresh_live {
                    found.push(("reset:state-differs-from-fresh".into(), "fresh".into(), "differs".into()));
                }
            }
        }
        if found.is_empty() {
            if let Some(x) = check_state(&mut cx, &h, c, &mut rep) {
                found.push(x);
            }
        }
    }
    for (k, e, o) in &found {
        println!("violation {}: expected {}, observed {}", k, e, o);
    }
    !found.is_empty()
}

fn main() {
    let args = Args::parse();
    vcommon::silence_panics();
    if let Err(e) = b3spec::self_check() {
        eprintln!("ORACLE-ANCHOR-FAILED: {}", e);
        std::process::exit(2);
    }
    if args.prop != "C06" {
        eprintln!("vclib does not serve {}", args.prop);
        std::process::exit(2);
    }
    if let Some(path) = &args.replay {
        let text = std::fs::read_to_string(path).expect("replay file");
        let v: Value = vcommon::serde_json::from_str(&text).expect("replay json");
        let r = replay(&v);
        println!("{}", if r { "REPRODUCED" } else { "NOT-REPRODUCED" });
        std::process::exit(if r { 1 } else { 0 });
    }
    let mut rep = Report::new(&args, "clib/hasher_bfs", "model_checking");
    run(&args, &mut rep);
    rep.write(&args.report);
}
