/* Harness-side helpers compiled together with the C library (no change to /repo/c). */
#include <stddef.h>
#include <stdint.h>
#include "blake3.h"
#include "blake3_impl.h"

#if defined(__STDC_VERSION__) && !defined(__STDC_NO_ATOMICS__)
extern _Atomic int g_cpu_features; /* non-static under BLAKE3_TESTING (upstream's own test seam) */
#else
extern int g_cpu_features;
#endif

void verif_set_features(int f) { g_cpu_features = f; }
int verif_get_features(void) { return g_cpu_features; }
size_t verif_sizeof_hasher(void) { return sizeof(blake3_hasher); }
size_t verif_offsetof_cv_stack_len(void) { return offsetof(blake3_hasher, cv_stack_len); }
size_t verif_offsetof_cv_stack(void) { return offsetof(blake3_hasher, cv_stack); }
size_t verif_offsetof_chunk(void) { return offsetof(blake3_hasher, chunk); }
size_t verif_simd_degree(void) { return blake3_simd_degree(); }
