//! Compiles every native kernel flavour from /repo/c under distinct symbol names:
//!   unix assembly            blake3_*_{sse2,sse41,avx2,avx512}          (as is)
//!   C intrinsics             cint_*                                     (-D renames)
//!   Windows-GNU assembly     win_blake3_*  (Win64 ABI; `.section .rdata` -> `.rodata` for ELF)
//!   portable C               blake3_*_portable
//! plus the register-sentinel trampolines (csrc/tramp.S).
use std::path::{Path, PathBuf};

fn main() {
    let c = Path::new("/repo/c");
    let out = PathBuf::from(std::env::var("OUT_DIR").unwrap());
    let base = || {
        let mut b = cc::Build::new();
        b.include(c).warnings(false).opt_level(2).flag("-g");
        b.emit_rerun_if_env_changed(false);
        b
    };
    // unix assembly
    let mut b = base();
    for f in ["blake3_sse2_x86-64_unix.S", "blake3_sse41_x86-64_unix.S", "blake3_avx2_x86-64_unix.S", "blake3_avx512_x86-64_unix.S"] {
        b.file(c.join(f));
    }
    b.flag("-mavx512f").flag("-mavx512vl");
    b.compile("k_unix_asm");
    // portable C
    let mut b = base();
    b.flag("-std=c11").file(c.join("blake3_portable.c"));
    b.compile("k_portable_c");
    // C intrinsics under cint_ names
    let names = [
        "blake3_compress_in_place_sse2", "blake3_compress_xof_sse2", "blake3_hash_many_sse2",
        "blake3_compress_in_place_sse41", "blake3_compress_xof_sse41", "blake3_hash_many_sse41",
        "blake3_hash_many_avx2",
        "blake3_compress_in_place_avx512", "blake3_compress_xof_avx512", "blake3_hash_many_avx512", "blake3_xof_many_avx512",
    ];
    for (f, flags) in [
        ("blake3_sse2.c", vec!["-msse2"]),
        ("blake3_sse41.c", vec!["-msse4.1"]),
        ("blake3_avx2.c", vec!["-mavx2"]),
        ("blake3_avx512.c", vec!["-mavx512f", "-mavx512vl"]),
    ] {
        let mut b = base();
        b.flag("-std=c11").file(c.join(f));
        for fl in flags {
            b.flag(fl);
        }
        for n in names {
            b.define(n, Some(n.replace("blake3_", "cint_").as_str()));
        }
        b.compile(&format!("k_cint_{}", f.replace('.', "_")));
    }
    // Windows-GNU assembly, made assemblable as ELF and renamed
    let mut b = base();
    for f in ["blake3_sse2_x86-64_windows_gnu.S", "blake3_sse41_x86-64_windows_gnu.S", "blake3_avx2_x86-64_windows_gnu.S", "blake3_avx512_x86-64_windows_gnu.S"] {
        let text = std::fs::read_to_string(c.join(f)).unwrap();
        let text = text.replace(".section .rdata", ".section .rodata").replace("blake3_", "win_blake3_");
        let p = out.join(f.replace("windows_gnu", "wingnu_elf"));
        std::fs::write(&p, text).unwrap();
        b.file(p);
    }
    b.flag("-mavx512f").flag("-mavx512vl");
    b.compile("k_win_asm");
    // trampolines
    let mut b = base();
    b.file("csrc/tramp.S");
    b.compile("k_tramp");
    for entry in std::fs::read_dir(c).unwrap() {
        println!("cargo::rerun-if-changed={}", entry.unwrap().path().display());
    }
    println!("cargo::rerun-if-changed=csrc/tramp.S");
    println!("cargo::rerun-if-changed=build.rs");
}
