//! The kernel table (every flavour the CPU can execute) and uniform call wrappers.
use blake3::platform::Platform;
use std::ffi::c_void;

extern "C" {
    // unix assembly
    fn blake3_compress_in_place_sse2();
    fn blake3_compress_xof_sse2();
    fn blake3_hash_many_sse2();
    fn blake3_compress_in_place_sse41();
    fn blake3_compress_xof_sse41();
    fn blake3_hash_many_sse41();
    fn blake3_hash_many_avx2();
    fn blake3_compress_in_place_avx512();
    fn blake3_compress_xof_avx512();
    fn blake3_hash_many_avx512();
    fn blake3_xof_many_avx512();
    // C intrinsics
    fn cint_compress_in_place_sse2();
    fn cint_compress_xof_sse2();
    fn cint_hash_many_sse2();
    fn cint_compress_in_place_sse41();
    fn cint_compress_xof_sse41();
    fn cint_hash_many_sse41();
    fn cint_hash_many_avx2();
    fn cint_compress_in_place_avx512();
    fn cint_compress_xof_avx512();
    fn cint_hash_many_avx512();
    fn cint_xof_many_avx512();
    // Windows-GNU assembly (Win64 ABI)
    fn win_blake3_compress_in_place_sse2();
    fn win_blake3_compress_xof_sse2();
    fn win_blake3_hash_many_sse2();
    fn win_blake3_compress_in_place_sse41();
    fn win_blake3_compress_xof_sse41();
    fn win_blake3_hash_many_sse41();
    fn win_blake3_hash_many_avx2();
    fn win_blake3_compress_in_place_avx512();
    fn win_blake3_compress_xof_avx512();
    fn win_blake3_hash_many_avx512();
    // portable C
    fn blake3_compress_in_place_portable();
    fn blake3_compress_xof_portable();
    fn blake3_hash_many_portable();
    // trampolines
    fn verif_tramp_sysv(f: *const c_void, args: *const u64, out: *mut u64);
    fn verif_tramp_win64(f: *const c_void, args: *const u64, out: *mut u64);
    /// where the trampolines put the stack: rsp = -skew (mod 64) before the arguments are pushed
    static mut verif_stack_skew: u64;
}

/// Stack placement policy of the trampolines: 0..=3 = that placement for every call, 4 = rotate
/// through the four 16-byte placements modulo 64 call by call (sweeps), 5 = every call at all four
/// (replays). A routine whose frame is wrong only for some entry alignments shows up under 4 and
/// reproduces under 5.
pub static SKEW_MODE: std::sync::atomic::AtomicU64 = std::sync::atomic::AtomicU64::new(4);
static TRAMP_CALLS: std::sync::atomic::AtomicU64 = std::sync::atomic::AtomicU64::new(0);

#[derive(Clone, Copy, Debug, PartialEq, Eq)]
pub enum Abi {
    /// Rust code reached through blake3::platform::Platform methods
    Rust,
    SysV,
    Win64,
}

#[derive(Clone, Copy)]
pub struct Kernel {
    pub name: &'static str,
    pub abi: Abi,
    pub platform: Option<Platform>,
    pub cip: Option<unsafe extern "C" fn()>,
    pub cxof: Option<unsafe extern "C" fn()>,
    pub hm: Option<unsafe extern "C" fn()>,
    pub xm: Option<unsafe extern "C" fn()>,
    /// SIMD degree of hash_many (for choosing interesting input counts)
    pub degree: usize,
    pub asm: bool,
}

unsafe impl Send for Kernel {}
unsafe impl Sync for Kernel {}

fn has(isa: &str) -> bool {
    match isa {
        "sse2" => std::is_x86_feature_detected!("sse2"),
        "sse41" => std::is_x86_feature_detected!("sse4.1") && std::is_x86_feature_detected!("ssse3"),
        "avx2" => std::is_x86_feature_detected!("avx2"),
        "avx512" => std::is_x86_feature_detected!("avx512f") && std::is_x86_feature_detected!("avx512vl"),
        _ => true,
    }
}

/// Every kernel of every flavour this CPU can execute.
pub fn kernels() -> Vec<Kernel> {
    let mut v = vec![];
    let k = |name, abi, platform, cip, cxof, hm, xm, degree, asm| Kernel { name, abi, platform, cip, cxof, hm, xm, degree, asm };
    v.push(k("rust/portable", Abi::Rust, Some(Platform::portable()), None, None, None, None, 1, false));
    v.push(k("c/portable", Abi::SysV, None, Some(blake3_compress_in_place_portable as _), Some(blake3_compress_xof_portable as _), Some(blake3_hash_many_portable as _), None, 1, false));
    if has("sse2") {
        v.push(k("rust_intrinsics/sse2", Abi::Rust, Platform::sse2(), None, None, None, None, 4, false));
        v.push(k("c_intrinsics/sse2", Abi::SysV, None, Some(cint_compress_in_place_sse2 as _), Some(cint_compress_xof_sse2 as _), Some(cint_hash_many_sse2 as _), None, 4, false));
        v.push(k("unix_asm/sse2", Abi::SysV, None, Some(blake3_compress_in_place_sse2 as _), Some(blake3_compress_xof_sse2 as _), Some(blake3_hash_many_sse2 as _), None, 4, true));
        v.push(k("win_gnu_asm/sse2", Abi::Win64, None, Some(win_blake3_compress_in_place_sse2 as _), Some(win_blake3_compress_xof_sse2 as _), Some(win_blake3_hash_many_sse2 as _), None, 4, true));
    }
    if has("sse41") {
        v.push(k("rust_intrinsics/sse41", Abi::Rust, Platform::sse41(), None, None, None, None, 4, false));
        v.push(k("c_intrinsics/sse41", Abi::SysV, None, Some(cint_compress_in_place_sse41 as _), Some(cint_compress_xof_sse41 as _), Some(cint_hash_many_sse41 as _), None, 4, false));
        v.push(k("unix_asm/sse41", Abi::SysV, None, Some(blake3_compress_in_place_sse41 as _), Some(blake3_compress_xof_sse41 as _), Some(blake3_hash_many_sse41 as _), None, 4, true));
        v.push(k("win_gnu_asm/sse41", Abi::Win64, None, Some(win_blake3_compress_in_place_sse41 as _), Some(win_blake3_compress_xof_sse41 as _), Some(win_blake3_hash_many_sse41 as _), None, 4, true));
    }
    if has("avx2") {
        v.push(k("rust_intrinsics/avx2", Abi::Rust, Platform::avx2(), None, None, None, None, 8, false));
        v.push(k("c_intrinsics/avx2", Abi::SysV, None, None, None, Some(cint_hash_many_avx2 as _), None, 8, false));
        v.push(k("unix_asm/avx2", Abi::SysV, None, None, None, Some(blake3_hash_many_avx2 as _), None, 8, true));
        v.push(k("win_gnu_asm/avx2", Abi::Win64, None, None, None, Some(win_blake3_hash_many_avx2 as _), None, 8, true));
    }
    if has("avx512") {
        v.push(k("c_intrinsics/avx512", Abi::SysV, None, Some(cint_compress_in_place_avx512 as _), Some(cint_compress_xof_avx512 as _), Some(cint_hash_many_avx512 as _), Some(cint_xof_many_avx512 as _), 16, false));
        v.push(k("unix_asm/avx512", Abi::SysV, None, Some(blake3_compress_in_place_avx512 as _), Some(blake3_compress_xof_avx512 as _), Some(blake3_hash_many_avx512 as _), Some(blake3_xof_many_avx512 as _), 16, true));
        v.push(k("win_gnu_asm/avx512", Abi::Win64, None, Some(win_blake3_compress_in_place_avx512 as _), Some(win_blake3_compress_xof_avx512 as _), Some(win_blake3_hash_many_avx512 as _), None, 16, true));
    }
    v
}

pub const SENT_GPR: [u64; 8] = [
    0x1111111111111111, 0x2222222222222222, 0x7777777777777777, 0x8888888888888888, 0x3333333333333333, 0x4444444444444444, 0x5555555555555555, 0x6666666666666666,
];
const SENT_XMM: [u64; 20] = [
    0xa6a6a6a6a6a6a606, 0x6a6a6a6a6a6a6a06, 0xa7a7a7a7a7a7a707, 0x7a7a7a7a7a7a7a07, 0xa8a8a8a8a8a8a808, 0x8a8a8a8a8a8a8a08, 0xa9a9a9a9a9a9a909, 0x9a9a9a9a9a9a9a09,
    0xaaaaaaaaaaaaaa10, 0xabababababababa0, 0xacacacacacacac11, 0xadadadadadadada1, 0xaeaeaeaeaeaeae12, 0xafafafafafafafa2, 0xb0b0b0b0b0b0b013, 0xb1b1b1b1b1b1b1a3,
    0xb2b2b2b2b2b2b214, 0xb3b3b3b3b3b3b3a4, 0xb4b4b4b4b4b4b415, 0xb5b5b5b5b5b5b5a5,
];

/// Call `f` through the register-sentinel trampoline of its ABI. Returns a description of the
/// first calling-convention violation, if any.
pub unsafe fn tramp(abi: Abi, f: unsafe extern "C" fn(), args: &[u64; 10]) -> Option<String> {
    use std::sync::atomic::Ordering::SeqCst;
    let mode = SKEW_MODE.load(SeqCst);
    let n = TRAMP_CALLS.fetch_add(1, SeqCst);
    let skews: Vec<u64> = match mode {
        0..=3 => vec![mode],
        4 => vec![n % 4],
        _ => vec![0, 1, 2, 3],
    };
    let mut first = None;
    for sk in skews {
        verif_stack_skew = sk * 16;
        if let Some(w) = tramp_once(abi, f, args) {
            if first.is_none() {
                first = Some(format!("{} (stack placement: rsp = {} mod 64 at the call)", w, (64 - (sk * 16 + if abi == Abi::SysV { 32 } else { 80 }) % 64) % 64));
            }
        }
    }
    first
}

unsafe fn tramp_once(abi: Abi, f: unsafe extern "C" fn(), args: &[u64; 10]) -> Option<String> {
    let mut out = [0u64; 32];
    match abi {
        Abi::SysV => verif_tramp_sysv(f as *const c_void, args.as_ptr(), out.as_mut_ptr()),
        Abi::Win64 => verif_tramp_win64(f as *const c_void, args.as_ptr(), out.as_mut_ptr()),
        Abi::Rust => unreachable!(),
    }
    let names = ["rbx", "rbp", "rdi", "rsi", "r12", "r13", "r14", "r15"];
    for i in 0..8 {
        if abi == Abi::SysV && (i == 2 || i == 3) {
            continue; // rdi, rsi are caller-saved in the System V convention
        }
        if out[i] != SENT_GPR[i] {
            return Some(format!("callee-saved {} not preserved ({:#x} instead of {:#x})", names[i], out[i], SENT_GPR[i]));
        }
    }
    if out[8] != 0 {
        return Some(format!("stack pointer changed by {} bytes across the call", out[8] as i64));
    }
    if out[9] & (1 << 10) != 0 {
        return Some("direction flag set on return".into());
    }
    if abi == Abi::Win64 {
        for i in 0..10 {
            if out[10 + 2 * i] != SENT_XMM[2 * i] || out[11 + 2 * i] != SENT_XMM[2 * i + 1] {
                return Some(format!("callee-saved xmm{} not preserved (Win64)", 6 + i));
            }
        }
    }
    None
}

impl Kernel {
    pub fn has_single(&self) -> bool {
        self.platform.is_some() || self.cip.is_some()
    }
    pub fn has_xof_many(&self) -> bool {
        self.xm.is_some()
    }

    /// compress_in_place: cv is updated in place. `cv` and `block` may be raw pointers into guarded memory.
    pub unsafe fn compress_in_place(&self, cv: *mut [u32; 8], block: *const [u8; 64], block_len: u8, counter: u64, flags: u8) -> Option<String> {
        match (self.platform, self.cip) {
            (Some(p), _) => {
                p.compress_in_place(&mut *cv, &*block, block_len, counter, flags);
                None
            }
            (None, Some(f)) => tramp(self.abi, f, &[cv as u64, block as u64, block_len as u64, counter, flags as u64, 0, 0, 0, 0, 0]),
            _ => None,
        }
    }

    pub unsafe fn compress_xof(&self, cv: *const [u32; 8], block: *const [u8; 64], block_len: u8, counter: u64, flags: u8, out: *mut [u8; 64]) -> Option<String> {
        match (self.platform, self.cxof) {
            (Some(p), _) => {
                *out = p.compress_xof(&*cv, &*block, block_len, counter, flags);
                None
            }
            (None, Some(f)) => tramp(self.abi, f, &[cv as u64, block as u64, block_len as u64, counter, flags as u64, out as u64, 0, 0, 0, 0]),
            _ => None,
        }
    }

    /// hash_many over `inputs` (each `blocks`*64 bytes), writing 32 bytes per input at `out`.
    pub unsafe fn hash_many(&self, inputs: &[*const u8], ptr_array: *const *const u8, blocks: usize, key: *const [u32; 8], counter: u64, inc: bool, flags: u8, fs: u8, fe: u8, out: *mut u8) -> Option<String> {
        let n = inputs.len();
        match (self.platform, self.hm) {
            (Some(p), _) => {
                let outs = std::slice::from_raw_parts_mut(out, 32 * n);
                let incr = if inc { blake3::IncrementCounter::Yes } else { blake3::IncrementCounter::No };
                if blocks == 1 {
                    let refs: Vec<&[u8; 64]> = inputs.iter().map(|p| &*(*p as *const [u8; 64])).collect();
                    p.hash_many(&refs, &*key, counter, incr, flags, fs, fe, outs);
                } else {
                    let refs: Vec<&[u8; 1024]> = inputs.iter().map(|p| &*(*p as *const [u8; 1024])).collect();
                    p.hash_many(&refs, &*key, counter, incr, flags, fs, fe, outs);
                }
                None
            }
            (None, Some(f)) => tramp(self.abi, f, &[ptr_array as u64, n as u64, blocks as u64, key as u64, counter, inc as u64, flags as u64, fs as u64, fe as u64, out as u64]),
            _ => None,
        }
    }

    pub unsafe fn xof_many(&self, cv: *const [u32; 8], block: *const [u8; 64], block_len: u8, counter: u64, flags: u8, out: *mut u8, outblocks: usize) -> Option<String> {
        match self.xm {
            Some(f) => tramp(self.abi, f, &[cv as u64, block as u64, block_len as u64, counter, flags as u64, out as u64, outblocks as u64, 0, 0, 0]),
            None => None,
        }
    }
}

/// A buffer with an inaccessible page directly after (`right`) or directly before (`left`) it.
pub struct Guarded {
    base: *mut u8,
    total: usize,
    pub ptr: *mut u8,
    pub len: usize,
}

unsafe impl Send for Guarded {}

pub const PAGE: usize = 4096;

impl Guarded {
    /// `right = true`: the last byte of the buffer is the last byte before a PROT_NONE page.
    /// `right = false`: the first byte of the buffer is the first byte after a PROT_NONE page.
    pub fn new(len: usize, right: bool) -> Guarded {
        let data_pages = (len + PAGE - 1) / PAGE + 1;
        let total = (data_pages + 2) * PAGE;
        unsafe {
            let base = libc::mmap(std::ptr::null_mut(), total, libc::PROT_READ | libc::PROT_WRITE, libc::MAP_PRIVATE | libc::MAP_ANONYMOUS, -1, 0) as *mut u8;
            assert!(base as isize != -1, "mmap failed");
            assert_eq!(libc::mprotect(base as *mut _, PAGE, libc::PROT_NONE), 0);
            assert_eq!(libc::mprotect(base.add(total - PAGE) as *mut _, PAGE, libc::PROT_NONE), 0);
            let ptr = if right { base.add(total - PAGE - len) } else { base.add(PAGE) };
            Guarded { base, total, ptr, len }
        }
    }
    pub fn fill(&mut self, src: &[u8]) {
        assert_eq!(src.len(), self.len);
        unsafe { std::ptr::copy_nonoverlapping(src.as_ptr(), self.ptr, self.len) };
    }
    pub fn bytes(&self) -> &[u8] {
        unsafe { std::slice::from_raw_parts(self.ptr, self.len) }
    }
}

impl Drop for Guarded {
    fn drop(&mut self) {
        unsafe {
            libc::munmap(self.base as *mut _, self.total);
        }
    }
}
