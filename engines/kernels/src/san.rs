//! C07, third monitor: the C library and the C intrinsics files under AddressSanitizer and
//! UndefinedBehaviorSanitizer (clang), driven by csrc/san_driver.c. Rebuilt from /repo/c on every run.
use vcommon::serde_json::json;
use vcommon::{Args, Report};

pub fn run(_args: &Args, rep: &mut Report) {
    let c = "/repo/c";
    let dir = "/verif/target/san";
    let _ = std::fs::create_dir_all(dir);
    let exe = format!("{}/san_driver", dir);
    let driver = concat!(env!("CARGO_MANIFEST_DIR"), "/csrc/san_driver.c");
    let mut objs: Vec<String> = vec![];
    let common = ["-fsanitize=address,undefined", "-fno-sanitize-recover=all", "-fno-omit-frame-pointer", "-gdwarf-4", "-O1", "-std=c11", "-DBLAKE3_TESTING", "-I", c];
    let units: [(&str, &[&str]); 8] = [
        ("blake3.c", &[]), ("blake3_dispatch.c", &[]), ("blake3_portable.c", &[]),
        ("blake3_sse2.c", &["-msse2"]), ("blake3_sse41.c", &["-msse4.1"]), ("blake3_avx2.c", &["-mavx2"]), ("blake3_avx512.c", &["-mavx512f", "-mavx512vl"]),
        ("DRIVER", &[]),
    ];
    for (f, flags) in units {
        let src = if f == "DRIVER" { driver.to_string() } else { format!("{}/{}", c, f) };
        let obj = format!("{}/{}.o", dir, f.replace('.', "_"));
        let out = std::process::Command::new("clang").args(common).args(flags).args(["-c", &src, "-o", &obj]).output();
        match out {
            Ok(o) if o.status.success() => objs.push(obj),
            Ok(o) => {
                eprintln!("sanitizer build failed for {}: {}", f, String::from_utf8_lossy(&o.stderr));
                std::process::exit(2);
            }
            Err(e) => {
                eprintln!("clang not runnable: {}", e);
                std::process::exit(2);
            }
        }
    }
    let link = std::process::Command::new("clang").args(["-fsanitize=address,undefined"]).args(&objs).args(["-o", &exe]).output().expect("link");
    if !link.status.success() {
        eprintln!("sanitizer link failed: {}", String::from_utf8_lossy(&link.stderr));
        std::process::exit(2);
    }
    let out = std::process::Command::new(&exe)
        .env("ASAN_OPTIONS", "detect_leaks=0:abort_on_error=0:halt_on_error=1:allocator_may_return_null=0")
        .env("UBSAN_OPTIONS", "print_stacktrace=1:halt_on_error=1")
        .output()
        .expect("run driver");
    let stdout = String::from_utf8_lossy(&out.stdout).to_string();
    let stderr = String::from_utf8_lossy(&out.stderr).to_string();
    rep.inc("sanitizer_runs");
    if let Some(l) = stdout.lines().find(|l| l.starts_with("SANITIZER-DRIVER-OK")) {
        let n: u64 = l.split("cases=").nth(1).and_then(|s| s.trim().parse().ok()).unwrap_or(0);
        rep.add("evaluations", n);
        rep.add("distinct_nontrivial", n);
        rep.add("sanitizer_cases", n);
    }
    if !out.status.success() {
        let first = stderr.lines().find(|l| l.contains("ERROR: AddressSanitizer") || l.contains("runtime error")).unwrap_or_else(|| stderr.lines().next().unwrap_or("")).to_string();
        let frames: Vec<&str> = stderr.lines().filter(|l| l.trim_start().starts_with("#") && l.contains("/repo/c/")).take(4).collect();
        let site = frames.first().map(|f| f.rsplit(' ').next().unwrap_or("").to_string()).unwrap_or_default();
        let kind = if first.contains("AddressSanitizer") { "asan" } else if first.contains("runtime error") { "ubsan" } else { "driver-failed" };
        let key = format!("sanitizer:{}:{}", kind, site.rsplit('/').next().unwrap_or("").split(':').take(2).collect::<Vec<_>>().join(":"));
        rep.violation(&key, format!("sanitizer build of the C library: {} | {} | {}", first, frames.join(" | "), stdout.lines().last().unwrap_or("")),
            json!({"property": "C07", "engine": "kernels", "case": {"op": "sanitizer"}, "check": key}));
    }
    rep.sample(json!({"monitor": "clang -fsanitize=address,undefined", "driver": "csrc/san_driver.c", "histories": 16, "modes": 4, "probes": 17, "masks": 5}));
}
