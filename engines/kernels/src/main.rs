//! vkern - C05 (every kernel equals the portable compression function on all argument shapes)
//! and C07 (native code stays inside its buffers and obeys its calling convention).
//!
//! The parent process only orchestrates: every kernel is explored in its own single-threaded
//! child process (`--child`), so that a fault kills one child (and is reported with the case that
//! was running) and the non-reentrant register trampolines are never shared between threads.
mod kern;

use blake3::platform::Platform;
use kern::{Abi, Guarded, Kernel};
use std::io::Write;
use vcommon::serde_json::{json, Value};
use vcommon::{Args, Report};

// ------------------------------------------------------------------------------------------------
// argument alphabets

fn counters(thorough: bool) -> Vec<u64> {
    let mut v: Vec<u64> = vec![0, 1, (1 << 32) - 2, (1 << 32) - 1, 1 << 32, (1 << 32) + 1, (1 << 33) - 1, 1 << 33, 1 << 53, (1 << 54) - 1, (1u64 << 63) - 1, 1 << 63, u64::MAX - 1, u64::MAX];
    // every lane of a 16-wide batch must see the 2^32 carry fall right after it
    for d in 1..=17u64 {
        v.push((1u64 << 32) - d);
        v.push((1u64 << 31) - d); // a carry detector that looks at the sign bit would trip here
    }
    v.push(1u64 << 31);
    if thorough {
        for d in -40i64..=40 {
            v.push(((1i128 << 32) + d as i128) as u64);
        }
        for e in 0..40u64 {
            v.push(u64::MAX - e);
        }
        v.extend([2, 3, 255, 256, 65535, 65536, (1 << 31) - 1, 1 << 31, (1 << 48) + 5, 0x0123_4567_89ab_cdef]);
    }
    v.sort();
    v.dedup();
    v
}

fn content(name: &str, n: usize) -> Vec<u8> {
    match name {
        "zero" => vec![0u8; n],
        "ones" => vec![0xffu8; n],
        "A" => vcommon::stream_a(n),
        _ => vcommon::stream_b(1, n),
    }
}

fn cv_from(bytes: &[u8]) -> [u32; 8] {
    let mut cv = [0u32; 8];
    for i in 0..8 {
        cv[i] = u32::from_le_bytes([bytes[4 * i], bytes[4 * i + 1], bytes[4 * i + 2], bytes[4 * i + 3]]);
    }
    cv
}

#[derive(Clone, Debug)]
struct Single {
    cv: [u32; 8],
    block: [u8; 64],
    block_len: u8,
    counter: u64,
    flags: u8,
    tag: &'static str,
}

fn singles(thorough: bool) -> Vec<Single> {
    let mut v = vec![];
    let ctrs = counters(thorough);
    let contents: &[&'static str] = if thorough { &["zero", "ones", "A", "B"] } else { &["A", "B"] };
    for &c in contents {
        let bytes = content(c, 200);
        let cv = cv_from(&bytes[100..132]);
        let mut block = [0u8; 64];
        block.copy_from_slice(&bytes[..64]);
        for bl in 0..=64u8 {
            for flags in 0..=255u8 {
                // all counters on a rotating subset of (block_len, flags); every (block_len, flags) pair with 3 counters
                let full = (bl as usize + flags as usize) % (if thorough { 4 } else { 16 }) == 0;
                if full {
                    for &ctr in &ctrs {
                        v.push(Single { cv, block, block_len: bl, counter: ctr, flags, tag: c });
                    }
                } else {
                    for &ctr in &[0u64, (1 << 32) - 1, u64::MAX] {
                        v.push(Single { cv, block, block_len: bl, counter: ctr, flags, tag: c });
                    }
                }
            }
        }
    }
    // walking ones over every input wire, other arguments fixed
    let base = content("A", 200);
    let cv0 = cv_from(&base[100..132]);
    let mut b0 = [0u8; 64];
    b0.copy_from_slice(&base[..64]);
    for bit in 0..512 {
        let mut b = [0u8; 64];
        b[bit / 8] = 1 << (bit % 8);
        v.push(Single { cv: cv0, block: b, block_len: 64, counter: 7, flags: 0x0b, tag: "walk-block" });
        let mut b2 = b0;
        b2[bit / 8] ^= 1 << (bit % 8);
        v.push(Single { cv: cv0, block: b2, block_len: 61, counter: 7, flags: 0x0b, tag: "flip-block" });
    }
    for bit in 0..256 {
        let mut cv = [0u32; 8];
        cv[bit / 32] = 1 << (bit % 32);
        v.push(Single { cv, block: b0, block_len: 64, counter: 7, flags: 0x0b, tag: "walk-cv" });
        let mut cv2 = cv0;
        cv2[bit / 32] ^= 1 << (bit % 32);
        v.push(Single { cv: cv2, block: b0, block_len: 33, counter: 1 << 40, flags: 0x44, tag: "flip-cv" });
    }
    for bit in 0..64 {
        v.push(Single { cv: cv0, block: b0, block_len: 64, counter: 1u64 << bit, flags: 0x10, tag: "walk-counter" });
        v.push(Single { cv: cv0, block: b0, block_len: 64, counter: !(1u64 << bit), flags: 0x10, tag: "walk-counter-inv" });
    }
    v
}

#[derive(Clone, Debug)]
struct Many {
    n: usize,
    blocks: usize,
    counter: u64,
    inc: bool,
    flags: u8,
    fs: u8,
    fe: u8,
    in_off: usize,
    out_off: usize,
    content: &'static str,
}

fn manys(k: &Kernel, thorough: bool) -> Vec<Many> {
    let mut v = vec![];
    let ctrs = counters(thorough);
    let d = k.degree;
    // 1. shapes: every input count x blocks x counter x increment
    for n in 0..=(2 * 16 + 3) {
        for blocks in [1usize, 16] {
            for &counter in &ctrs {
                for inc in [true, false] {
                    if inc && (counter as u128) + (n as u128) >= (1u128 << 64) {
                        continue;
                    }
                    for (flags, fs, fe) in [(0u8, 1u8, 2u8), (0x10, 1, 2), (0x44, 0, 0)] {
                        if !thorough && flags == 0x10 && !(n <= d + 1 || n % d <= 1) {
                            continue;
                        }
                        v.push(Many { n, blocks, counter, inc, flags, fs, fe, in_off: 0, out_off: 0, content: "B" });
                    }
                }
            }
        }
    }
    // 2. flags: every flag byte, and triples from a small set, at interesting input counts
    let ns: Vec<usize> = vec![1, 2, 3, d.saturating_sub(1).max(1), d, d + 1, 2 * d, 2 * d + 1];
    for &n in &ns {
        for blocks in [1usize, 16] {
            for flags in 0..=255u8 {
                v.push(Many { n, blocks, counter: 5, inc: true, flags, fs: 0, fe: 0, in_off: 0, out_off: 0, content: "A" });
            }
        }
    }
    let set = [0u8, 1, 2, 4, 0x10, 0x40, 0xff];
    for &n in &[1usize, d + 1, 2 * d + 1] {
        for blocks in [1usize, 16] {
            for &a in &set {
                for &b in &set {
                    for &c in &set {
                        v.push(Many { n, blocks, counter: (1 << 32) - 1, inc: true, flags: a, fs: b, fe: c, in_off: 0, out_off: 0, content: "A" });
                    }
                }
            }
        }
    }
    // 3. alignment: every input / output offset 0..15
    for in_off in 0..16 {
        for out_off in 0..16 {
            if !thorough && !(in_off == out_off || in_off == 0 || out_off == 0 || (in_off + out_off) % 5 == 0) {
                continue;
            }
            for &n in &[1usize, d.max(2) - 1, d, d + 1, 2 * d + 1] {
                for blocks in [1usize, 16] {
                    v.push(Many { n, blocks, counter: (1 << 32) - 3, inc: true, flags: 0x10, fs: 1, fe: 2, in_off, out_off, content: "B" });
                }
            }
        }
    }
    // 4. content alphabet on a few shapes
    for c in ["zero", "ones"] {
        for &n in &[1usize, d, 2 * d + 1] {
            for blocks in [1usize, 16] {
                v.push(Many { n, blocks, counter: 0, inc: true, flags: 0, fs: 1, fe: 2, in_off: 0, out_off: 0, content: c });
            }
        }
    }
    v
}

#[derive(Clone, Debug)]
struct Xof {
    n: usize,
    counter: u64,
    block_len: u8,
    flags: u8,
    content: &'static str,
}

fn xofs(thorough: bool) -> Vec<Xof> {
    let mut v = vec![];
    let mut ctrs = counters(thorough);
    // counters around 2^32 so that each lane position sees the carry
    for d in 1..=40u64 {
        ctrs.push((1u64 << 32) - d);
    }
    ctrs.sort();
    ctrs.dedup();
    for n in 1..=40usize {
        for &counter in &ctrs {
            if (counter as u128) + (n as u128) >= (1u128 << 64) {
                continue;
            }
            for (bl, flags) in [(64u8, 0x08u8), (0, 0x0b), (1, 0x18), (63, 0x48)] {
                if !thorough && bl != 64 && !(n % 8 <= 1 || n == 40) {
                    continue;
                }
                v.push(Xof { n, counter, block_len: bl, flags, content: if (n + bl as usize) % 2 == 0 { "A" } else { "B" } });
            }
        }
    }
    v
}

// ------------------------------------------------------------------------------------------------
// expected values (portable Rust kernel; itself compared with b3spec as kernel "rust/portable")

fn exp_single(s: &Single) -> ([u32; 8], [u8; 64]) {
    let p = Platform::portable();
    let mut cv = s.cv;
    p.compress_in_place(&mut cv, &s.block, s.block_len, s.counter, s.flags);
    (cv, p.compress_xof(&s.cv, &s.block, s.block_len, s.counter, s.flags))
}

fn spec_single(s: &Single) -> ([u32; 8], [u8; 64]) {
    let out = b3spec::compress(&s.cv, &b3spec::words16(&s.block), s.counter, s.block_len as u32, s.flags as u32);
    let mut cv = [0u32; 8];
    cv.copy_from_slice(&out[..8]);
    (cv, b3spec::bytes64(&out))
}

/// hash_many is specified as the obvious loop over the single-block function.
fn exp_many(m: &Many, inputs: &[Vec<u8>], key: &[u32; 8], spec: bool) -> Vec<u8> {
    let p = Platform::portable();
    let mut out = vec![];
    for (i, inp) in inputs.iter().enumerate() {
        let mut cv = *key;
        let ctr = if m.inc { m.counter + i as u64 } else { m.counter };
        for b in 0..m.blocks {
            let mut f = m.flags;
            if b == 0 {
                f |= m.fs;
            }
            if b == m.blocks - 1 {
                f |= m.fe;
            }
            let mut block = [0u8; 64];
            block.copy_from_slice(&inp[64 * b..64 * b + 64]);
            if spec {
                let o = b3spec::compress(&cv, &b3spec::words16(&block), ctr, 64, f as u32);
                cv.copy_from_slice(&o[..8]);
            } else {
                p.compress_in_place(&mut cv, &block, 64, ctr, f);
            }
        }
        for w in cv {
            out.extend_from_slice(&w.to_le_bytes());
        }
    }
    out
}

fn exp_xof(x: &Xof, cv: &[u32; 8], block: &[u8; 64]) -> Vec<u8> {
    let p = Platform::portable();
    let mut out = vec![];
    for i in 0..x.n {
        out.extend_from_slice(&p.compress_xof(cv, block, x.block_len, x.counter + i as u64, x.flags));
    }
    out
}

// ------------------------------------------------------------------------------------------------
// child: one kernel, one mode

struct Cur {
    file: std::fs::File,
}

impl Cur {
    fn set(&mut self, s: &str) {
        use std::io::Seek;
        let _ = self.file.seek(std::io::SeekFrom::Start(0));
        let mut b = s.as_bytes().to_vec();
        b.resize(400, b' ');
        let _ = self.file.write_all(&b);
    }
}

fn viol(rep: &mut Report, prop: &str, key: &str, what: String, case: Value) {
    rep.violation(key, what, json!({"property": prop, "engine": "kernels", "case": case, "check": key}));
}

/// C05: values. Operands live in ordinary memory with canaries around the outputs.
fn child_values(k: &Kernel, thorough: bool, prop: &str, rep: &mut Report) {
    let is_ref = k.name == "rust/portable";
    // C05 judges values; C07 judges writes outside the output and the calling convention
    let values = prop == "C05";
    if k.has_single() {
        for s in singles(thorough) {
            let (ecv, exof) = if is_ref { spec_single(&s) } else { exp_single(&s) };
            rep.inc("evaluations");
            rep.inc("distinct_nontrivial");
            rep.inc("spec_comparisons");
            let case = json!({"kernel": k.name, "op": "compress", "block_len": s.block_len, "counter": s.counter.to_string(), "flags": s.flags, "content": s.tag});
            let mut cv = [[0xEEEEEEEEu32; 8], s.cv, [0xEEEEEEEE; 8]];
            let block = s.block;
            let r1 = unsafe { k.compress_in_place(&mut cv[1], &block, s.block_len, s.counter, s.flags) };
            if cv[1] != ecv {
                if values { viol(rep, "C05", &format!("{}:compress_in_place:mismatch", k.name), format!("{} compress_in_place block_len {} counter {} flags {:#x} ({}) differs from the portable kernel", k.name, s.block_len, s.counter, s.flags, s.tag), case.clone()); }
            } else if !values && (cv[0] != [0xEEEEEEEE; 8] || cv[2] != [0xEEEEEEEE; 8] || block != s.block) {
                viol(rep, "C07", &format!("{}:compress_in_place:writes-outside-cv", k.name), format!("{} compress_in_place wrote outside the CV", k.name), case.clone());
            }
            let mut out = [[0xEEu8; 64]; 3];
            let cvc = s.cv;
            let r2 = unsafe { k.compress_xof(&cvc, &block, s.block_len, s.counter, s.flags, &mut out[1]) };
            if out[1] != exof {
                if values { viol(rep, "C05", &format!("{}:compress_xof:mismatch", k.name), format!("{} compress_xof block_len {} counter {} flags {:#x} ({}) differs from the portable kernel", k.name, s.block_len, s.counter, s.flags, s.tag), case.clone()); }
            } else if !values && (out[0] != [0xEE; 64] || out[2] != [0xEE; 64] || cvc != s.cv) {
                viol(rep, "C07", &format!("{}:compress_xof:writes-outside-out", k.name), format!("{} compress_xof wrote outside its output", k.name), case.clone());
            }
            if let (false, Some(w)) = (values, r1.or(r2)) {
                viol(rep, "C07", &format!("{}:calling-convention", k.name), format!("{} single-block kernel: {}", k.name, w), case);
            }
        }
    }
    // hash_many
    let pool_a = content("A", 36 * 1024 + 64);
    let pool_b = content("B", 36 * 1024 + 64);
    let key = cv_from(&pool_b[500..532]);
    for m in manys(k, thorough) {
        let pool: Vec<u8> = match m.content {
            "A" => pool_a.clone(),
            "B" => pool_b.clone(),
            c => content(c, 36 * 1024 + 64),
        };
        let len = 64 * m.blocks;
        let inputs: Vec<Vec<u8>> = (0..m.n).map(|i| pool[i * len + (i % 7)..i * len + (i % 7) + len].to_vec()).collect();
        let exp = exp_many(&m, &inputs, &key, is_ref);
        rep.inc("evaluations");
        rep.inc("distinct_nontrivial");
        rep.inc("spec_comparisons");
        // place each input at the requested offset from a 64-byte aligned base
        let mut arena: Vec<Vec<u8>> = inputs.iter().map(|inp| {
            let mut a = vec![0xCCu8; len + 128];
            let base = (64 - (a.as_ptr() as usize % 64)) % 64 + m.in_off;
            a[base..base + len].copy_from_slice(inp);
            a
        }).collect();
        let ptrs: Vec<*const u8> = arena.iter_mut().map(|a| {
            let base = (64 - (a.as_ptr() as usize % 64)) % 64 + m.in_off;
            unsafe { a.as_ptr().add(base) }
        }).collect();
        let mut outbuf = vec![0xEEu8; 32 * m.n + 192];
        let obase = (64 - (outbuf.as_ptr() as usize % 64)) % 64 + 64 + m.out_off;
        let case = json!({"kernel": k.name, "op": "hash_many", "num_inputs": m.n, "blocks": m.blocks, "counter": m.counter.to_string(), "increment": m.inc,
                          "flags": m.flags, "flags_start": m.fs, "flags_end": m.fe, "in_off": m.in_off, "out_off": m.out_off, "content": m.content});
        let r = unsafe { k.hash_many(&ptrs, ptrs.as_ptr(), m.blocks, &key, m.counter, m.inc, m.flags, m.fs, m.fe, outbuf.as_mut_ptr().add(obase)) };
        if outbuf[obase..obase + 32 * m.n] != exp[..] {
            let lane = (0..m.n).find(|i| outbuf[obase + 32 * i..obase + 32 * i + 32] != exp[32 * i..32 * i + 32]).unwrap_or(0);
            if values { viol(rep, "C05", &format!("{}:hash_many:mismatch", k.name), format!("{} hash_many {:?}: output {} differs from the portable loop", k.name, m, lane), case.clone()); }
        } else if !values && (outbuf[..obase].iter().any(|b| *b != 0xEE) || outbuf[obase + 32 * m.n..].iter().any(|b| *b != 0xEE)) {
            viol(rep, "C07", &format!("{}:hash_many:writes-outside-out", k.name), format!("{} hash_many {:?} wrote outside the {} output bytes", k.name, m, 32 * m.n), case.clone());
        }
        if let (false, Some(w)) = (values, r) {
            viol(rep, "C07", &format!("{}:calling-convention", k.name), format!("{} hash_many {:?}: {}", k.name, m, w), case);
        }
    }
    // xof_many
    if k.has_xof_many() {
        for x in xofs(thorough) {
            let bytes = content(x.content, 200);
            let cv = cv_from(&bytes[100..132]);
            let mut block = [0u8; 64];
            block.copy_from_slice(&bytes[..64]);
            let exp = exp_xof(&x, &cv, &block);
            rep.inc("evaluations");
            rep.inc("distinct_nontrivial");
            rep.inc("spec_comparisons");
            let mut out = vec![0xEEu8; 64 * x.n + 256];
            let case = json!({"kernel": k.name, "op": "xof_many", "blocks": x.n, "counter": x.counter.to_string(), "block_len": x.block_len, "flags": x.flags, "content": x.content});
            let r = unsafe { k.xof_many(&cv, &block, x.block_len, x.counter, x.flags, out.as_mut_ptr().add(128), x.n) };
            if out[128..128 + 64 * x.n] != exp[..] {
                let lane = (0..x.n).find(|i| out[128 + 64 * i..128 + 64 * i + 64] != exp[64 * i..64 * i + 64]).unwrap_or(0);
                if values { viol(rep, "C05", &format!("{}:xof_many:mismatch", k.name), format!("{} xof_many {:?}: block {} differs from the portable loop", k.name, x, lane), case.clone()); }
            } else if !values && (out[..128].iter().any(|b| *b != 0xEE) || out[128 + 64 * x.n..].iter().any(|b| *b != 0xEE)) {
                viol(rep, "C07", &format!("{}:xof_many:writes-outside-out", k.name), format!("{} xof_many {:?} wrote outside the {} output bytes", k.name, x, 64 * x.n), case.clone());
            }
            if let (false, Some(w)) = (values, r) {
                viol(rep, "C07", &format!("{}:calling-convention", k.name), format!("{} xof_many {:?}: {}", k.name, x, w), case);
            }
        }
    }
}

/// C07: every operand flush against an inaccessible page (right, then left), register sentinels on
/// every call. Values are not judged here (C05 does). `start` skips cases (resume after a fault).
fn child_guards(k: &Kernel, thorough: bool, start: u64, cur: &mut Cur, rep: &mut Report) {
    let mut idx: u64 = 0;
    let data = content("A", 36 * 1024 + 64);
    for right in [true, false] {
        let side = if right { "right" } else { "left" };
        // single-block kernels
        if k.has_single() {
            let mut gcv = Guarded::new(32, right);
            let mut gblock = Guarded::new(64, right);
            let gout = Guarded::new(64, right);
            let list: Vec<(u8, u64, u8)> = {
                let mut l = vec![];
                for bl in 0..=64u8 {
                    for &ctr in &[0u64, (1 << 32) - 1, u64::MAX] {
                        for &f in &[0u8, 0x0b, 0xff] {
                            l.push((bl, ctr, f));
                        }
                    }
                }
                l
            };
            for (bl, ctr, f) in list {
                idx += 1;
                if idx <= start {
                    continue;
                }
                let desc = format!("{{\"kernel\":\"{}\",\"op\":\"compress\",\"guard\":\"{}\",\"block_len\":{},\"counter\":\"{}\",\"flags\":{},\"index\":{}}}", k.name, side, bl, ctr, f, idx);
                cur.set(&desc);
                gcv.fill(&data[100..132]);
                gblock.fill(&data[..64]);
                rep.inc("evaluations");
                rep.inc("distinct_nontrivial");
                rep.inc("guarded_calls");
                let r1 = unsafe { k.compress_in_place(gcv.ptr as *mut [u32; 8], gblock.ptr as *const [u8; 64], bl, ctr, f) };
                gcv.fill(&data[100..132]);
                let r2 = unsafe { k.compress_xof(gcv.ptr as *const [u32; 8], gblock.ptr as *const [u8; 64], bl, ctr, f, gout.ptr as *mut [u8; 64]) };
                if let Some(w) = r1.or(r2) {
                    let v: Value = vcommon::serde_json::from_str(&desc).unwrap();
                    viol(rep, "C07", &format!("{}:calling-convention", k.name), format!("{} single-block kernel: {}", k.name, w), v);
                }
            }
        }
        // hash_many: every input in its own guarded region, the pointer array and the output sized exactly
        for blocks in [1usize, 16] {
            let len = 64 * blocks;
            let mut ginputs: Vec<Guarded> = (0..36).map(|_| Guarded::new(len, right)).collect();
            for (i, g) in ginputs.iter_mut().enumerate() {
                g.fill(&data[i * len..(i + 1) * len]);
            }
            let mut gkey = Guarded::new(32, right);
            gkey.fill(&data[500..532]);
            let nmax = if thorough { 35 } else { 2 * k.degree + 3 };
            for n in 0..=nmax {
                let mut gptrs = Guarded::new(8 * n, right);
                let ptrs: Vec<*const u8> = ginputs[..n].iter().map(|g| g.ptr as *const u8).collect();
                let raw: Vec<u8> = ptrs.iter().flat_map(|p| (*p as u64).to_le_bytes()).collect();
                gptrs.fill(&raw);
                let gout = Guarded::new(32 * n, right);
                for &ctr in &[0u64, (1 << 32) - 1, u64::MAX - 40] {
                    for inc in [true, false] {
                        idx += 1;
                        if idx <= start {
                            continue;
                        }
                        let desc = format!("{{\"kernel\":\"{}\",\"op\":\"hash_many\",\"guard\":\"{}\",\"num_inputs\":{},\"blocks\":{},\"counter\":\"{}\",\"increment\":{},\"index\":{}}}", k.name, side, n, blocks, ctr, inc, idx);
                        cur.set(&desc);
                        rep.inc("evaluations");
                        rep.inc("distinct_nontrivial");
                        rep.inc("guarded_calls");
                        let r = unsafe { k.hash_many(&ptrs, gptrs.ptr as *const *const u8, blocks, gkey.ptr as *const [u32; 8], ctr, inc, 0x10, 1, 2, gout.ptr) };
                        if let Some(w) = r {
                            let v: Value = vcommon::serde_json::from_str(&desc).unwrap();
                            viol(rep, "C07", &format!("{}:calling-convention", k.name), format!("{} hash_many n={} blocks={}: {}", k.name, n, blocks, w), v);
                        }
                    }
                }
            }
        }
        if k.has_xof_many() {
            let mut gcv = Guarded::new(32, right);
            gcv.fill(&data[100..132]);
            let mut gblock = Guarded::new(64, right);
            gblock.fill(&data[..64]);
            for n in 1..=40usize {
                let gout = Guarded::new(64 * n, right);
                for &ctr in &[0u64, (1 << 32) - 5, u64::MAX - 64] {
                    for &bl in &[0u8, 1, 63, 64] {
                        idx += 1;
                        if idx <= start {
                            continue;
                        }
                        let desc = format!("{{\"kernel\":\"{}\",\"op\":\"xof_many\",\"guard\":\"{}\",\"blocks\":{},\"counter\":\"{}\",\"block_len\":{},\"index\":{}}}", k.name, side, n, ctr, bl, idx);
                        cur.set(&desc);
                        rep.inc("evaluations");
                        rep.inc("distinct_nontrivial");
                        rep.inc("guarded_calls");
                        let r = unsafe { k.xof_many(gcv.ptr as *const [u32; 8], gblock.ptr as *const [u8; 64], bl, ctr, 0x08, gout.ptr, n) };
                        if let Some(w) = r {
                            let v: Value = vcommon::serde_json::from_str(&desc).unwrap();
                            viol(rep, "C07", &format!("{}:calling-convention", k.name), format!("{} xof_many n={}: {}", k.name, n, w), v);
                        }
                    }
                }
            }
        }
    }
    cur.set("done");
}

fn run_child(args: &Args) {
    let name = args.extra.get("child").unwrap().clone();
    let mode = args.extra.get("mode").cloned().unwrap_or_else(|| "values".into());
    let start: u64 = args.extra.get("start").and_then(|s| s.parse().ok()).unwrap_or(0);
    let k = kern::kernels().into_iter().find(|k| k.name == name).unwrap_or_else(|| {
        eprintln!("no such kernel {}", name);
        std::process::exit(2)
    });
    let mut rep = Report::new(args, "kernels", "exploration");
    if mode == "values" {
        child_values(&k, args.thorough(), &args.prop, &mut rep);
    } else {
        let curpath = args.extra.get("cur").cloned().unwrap_or_else(|| "/verif/out/kern.cur".into());
        let file = std::fs::OpenOptions::new().create(true).write(true).truncate(true).open(&curpath).expect("cur file");
        let mut cur = Cur { file };
        child_guards(&k, args.thorough(), start, &mut cur, &mut rep);
    }
    rep.write(&args.report);
}

// ------------------------------------------------------------------------------------------------
// parent

fn spawn_child(args: &Args, kernel: &str, mode: &str, start: u64, tag: &str) -> (std::process::Child, String, String) {
    let rpt = format!("{}.{}.{}.json", args.report, tag, kernel.replace('/', "_"));
    let cur = format!("{}.{}.{}.cur", args.report, tag, kernel.replace('/', "_"));
    let _ = std::fs::remove_file(&rpt);
    let child = std::process::Command::new(std::env::current_exe().unwrap())
        .args(["--prop", &args.prop, "--tier", &args.tier, "--seed", &args.seed.to_string(), "--report", &rpt, "--child", kernel, "--mode", mode, "--start", &start.to_string(), "--cur", &cur])
        .stderr(std::process::Stdio::piped())
        .spawn()
        .expect("spawn child");
    (child, rpt, cur)
}

fn merge_child_report(rep: &mut Report, path: &str) -> bool {
    let Ok(text) = std::fs::read_to_string(path) else { return false };
    let Ok(v) = vcommon::serde_json::from_str::<Value>(&text) else { return false };
    for (k, n) in v["counters"].as_object().unwrap() {
        rep.add(k, n.as_u64().unwrap_or(0));
    }
    for x in v["violations"].as_array().unwrap() {
        rep.violation(x["key"].as_str().unwrap(), x["summary"].as_str().unwrap().to_string(), x["replay"].clone());
    }
    let _ = std::fs::remove_file(path);
    true
}

fn signal_name(st: &std::process::ExitStatus) -> String {
    use std::os::unix::process::ExitStatusExt;
    match st.signal() {
        Some(11) => "SIGSEGV".into(),
        Some(7) => "SIGBUS".into(),
        Some(4) => "SIGILL".into(),
        Some(6) => "SIGABRT".into(),
        Some(s) => format!("signal {}", s),
        None => format!("exit {:?}", st.code()),
    }
}

fn run_values(args: &Args, rep: &mut Report, only: Option<&str>) {
    let ks: Vec<Kernel> = kern::kernels().into_iter().filter(|k| only.map_or(true, |o| o == k.name)).collect();
    // a handful of children at a time (process creation does not scale here)
    let mut pending: Vec<Kernel> = ks.clone();
    let mut running: Vec<(Kernel, std::process::Child, String, String)> = vec![];
    let width = args.jobs.min(8).max(1);
    while !pending.is_empty() || !running.is_empty() {
        while running.len() < width && !pending.is_empty() {
            let k = pending.remove(0);
            let (c, r, cur) = spawn_child(args, k.name, "values", 0, "values");
            running.push((k, c, r, cur));
        }
        let (k, child, rpt, _cur) = running.remove(0);
        let out = child.wait_with_output().expect("wait");
        if !out.status.success() || !merge_child_report(rep, &rpt) {
            // a crash while computing values is itself a finding about that kernel
            viol(rep, &args.prop, &format!("{}:crash", k.name), format!("{} crashed during the value sweep ({}): {}", k.name, signal_name(&out.status), String::from_utf8_lossy(&out.stderr).lines().last().unwrap_or("")),
                json!({"kernel": k.name, "op": "any"}));
        }
        rep.inc("kernels_explored");
    }
    rep.configs.push(json!({"kernels": ks.iter().map(|k| k.name).collect::<Vec<_>>()}));
}

fn run_guards(args: &Args, rep: &mut Report, only: Option<&str>) {
    let ks: Vec<Kernel> = kern::kernels().into_iter().filter(|k| only.map_or(true, |o| o == k.name)).collect();
    for k in &ks {
        let mut start = 0u64;
        let mut faults = 0;
        loop {
            let (child, rpt, curp) = spawn_child(args, k.name, "guards", start, "guards");
            let out = child.wait_with_output().expect("wait");
            let merged = merge_child_report(rep, &rpt);
            if out.status.success() && merged {
                break;
            }
            // the child died: the case it announced last is the culprit
            let desc = std::fs::read_to_string(&curp).unwrap_or_default();
            let desc = desc.trim().to_string();
            let v: Value = vcommon::serde_json::from_str(&desc).unwrap_or(json!({"kernel": k.name, "raw": desc}));
            let idx = v["index"].as_u64().unwrap_or(u64::MAX);
            let op = v["op"].as_str().unwrap_or("?").to_string();
            let key = fault_key(k.name, &v);
            viol(rep, "C07", &key, format!("{} {} faults ({}) with its operands flush against an inaccessible page: {}", k.name, op, signal_name(&out.status), desc), v);
            rep.add("evaluations", idx.saturating_sub(start));
            faults += 1;
            if idx == u64::MAX || faults >= 60 {
                rep.cap(&format!("{}: stopped resuming after {} faults", k.name, faults));
                break;
            }
            start = idx;
            let _ = std::fs::remove_file(&curp);
        }
        rep.inc("kernels_explored");
    }
    rep.configs.push(json!({"kernels": ks.iter().map(|k| k.name).collect::<Vec<_>>()}));
}

/// A stable key for a guard-page fault: kernel, operation, guard side and the input-count class
/// (remainder modulo the SIMD degree), so that one defect maps to one key.
fn fault_key(kernel: &str, v: &Value) -> String {
    let op = v["op"].as_str().unwrap_or("?");
    let side = v["guard"].as_str().unwrap_or("?");
    match op {
        "hash_many" => {
            let n = v["num_inputs"].as_u64().unwrap_or(0);
            let d = kern::kernels().into_iter().find(|k| k.name == kernel).map(|k| k.degree as u64).unwrap_or(1);
            format!("{}:hash_many:guard-{}:fault:n_mod_degree={}", kernel, side, n % d)
        }
        "xof_many" => format!("{}:xof_many:guard-{}:fault:blocks_mod_16={}", kernel, side, v["blocks"].as_u64().unwrap_or(0) % 16),
        _ => format!("{}:{}:guard-{}:fault", kernel, op, side),
    }
}

mod san;

fn main() {
    let args = Args::parse();
    vcommon::silence_panics();
    if let Err(e) = b3spec::self_check() {
        eprintln!("ORACLE-ANCHOR-FAILED: {}", e);
        std::process::exit(2);
    }
    if args.extra.contains_key("child") {
        run_child(&args);
        return;
    }
    if let Some(path) = &args.replay {
        let text = std::fs::read_to_string(path).expect("replay file");
        let v: Value = vcommon::serde_json::from_str(&text).expect("replay json");
        let kernel = v["case"]["kernel"].as_str().map(|s| s.to_string());
        let a = Args { report: "/verif/out/kern-replay.json".into(), replay: None, ..args.clone() };
        let mut rep = Report::new(&a, "replay", "exploration");
        if v["case"]["op"].as_str() == Some("sanitizer") {
            san::run(&a, &mut rep);
        } else if args.prop == "C05" {
            run_values(&a, &mut rep, kernel.as_deref());
        } else {
            run_guards(&a, &mut rep, kernel.as_deref());
            run_values(&a, &mut rep, kernel.as_deref());
        }
        for x in rep.violations.iter().take(3) {
            println!("violation {}: {}", x.key, x.summary);
        }
        let hit = rep.violations.iter().any(|x| Some(x.key.as_str()) == v["check"].as_str());
        println!("{}", if hit { "REPRODUCED" } else { "NOT-REPRODUCED" });
        std::process::exit(if hit { 1 } else { 0 });
    }
    let mut rep = Report::new(&args, "kernels", "exploration");
    match args.prop.as_str() {
        "C05" => {
            run_values(&args, &mut rep, None);
            rep.rule = "for every kernel of every flavour the CPU can execute (Rust portable, portable C, Rust intrinsics via Platform, C intrinsics, Unix assembly, Windows-GNU assembly through the Win64 ABI): compress_in_place / compress_xof on every block_len 0..=64 x every flag byte x counters on both sides of every carry x content alphabet, plus walking-one / bit-flip over every block, CV and counter bit; hash_many on every input count 0..=35 x blocks {1,16} x counters x increment yes/no x flag triples, every flag byte and 343 flag triples at interesting counts, every input and output alignment offset 0..15; xof_many on 1..=40 blocks x counters around 2^32 (every lane) x block_len {0,1,63,64}; oracle = the portable Rust kernel, which is itself compared with b3spec on the same tuples; non-trivial = distinct (kernel, argument tuple)".into();
            rep.sample(json!({"kernel": "win_gnu_asm/avx512", "op": "hash_many", "num_inputs": 17, "blocks": 16, "counter": ((1u64 << 32) - 3).to_string(), "increment": true, "flags": 16, "flags_start": 1, "flags_end": 2, "in_off": 5, "out_off": 0}));
            rep.sample(json!({"kernel": "rust_intrinsics/avx2", "op": "compress", "block_len": 61, "counter": u64::MAX.to_string(), "flags": 255, "content": "flip-block"}));
            rep.assumptions.push("block / CV contents restricted to the content alphabet (zero, ones, streams A and B, walking-one and single-bit flips)".into());
            rep.assumptions.push("MSVC .asm files cannot be assembled here".into());
        }
        "C07" => {
            run_guards(&args, &mut rep, None);
            run_values(&args, &mut rep, None);
            san::run(&args, &mut rep);
            rep.rule = "every kernel of every flavour run with every operand (each input, the input-pointer array, key/CV, block, and an output sized exactly 32*num_inputs / 64*blocks) flush against a PROT_NONE page, once on the right and once on the left, over block_len 0..=64, input counts 0..=2*degree+3 (35 thorough) x blocks {1,16} x counters x increment, xof_many 1..=40 blocks; each case in a child process, a fault is the violation; the whole C05 shape space re-run with canaries around every output; every assembly / C call goes through a trampoline that loads sentinels into all callee-saved registers of the target convention (System V: rbx rbp r12-r15; Win64 also rsi rdi xmm6-xmm15) and checks them, rsp and DF afterwards, and that places the stack deterministically, rotating call by call through the four 16-byte-aligned entry positions modulo 64 (a frame that is wrong for one entry alignment only is hit on every run); plus the C library and C intrinsics built with clang -fsanitize=address,undefined and driven through update/finalize_seek histories and kernel calls on exact-size heap buffers; non-trivial = distinct guarded calls".into();
            rep.sample(json!({"kernel": "unix_asm/avx2", "op": "hash_many", "guard": "right", "num_inputs": 5, "blocks": 16, "counter": "4294967295", "increment": true}));
            rep.assumptions.push("undefined behaviour in the Rust intrinsics that neither faults nor changes results is not observable here".into());
            rep.assumptions.push("Win64 assembly is run as ELF after renaming .rdata; behaviour depending on a real Windows loader is out of reach".into());
        }
        _ => {
            eprintln!("vkern does not serve {}", args.prop);
            std::process::exit(2);
        }
    }
    rep.write(&args.report);
}
