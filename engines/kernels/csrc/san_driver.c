/* Sanitizer driver for C07: the C library (blake3.c, blake3_dispatch.c, blake3_portable.c) and the
 * four C intrinsics files, built with clang -fsanitize=address,undefined, driven through
 * update / finalize_seek histories and direct kernel calls. Every buffer is a heap block of exactly
 * the size the API is entitled to touch, so any over-read or over-write lands in an ASan redzone.
 * Results are only cross-checked between dispatch masks (values are the business of C05/C06). */
#include <stdint.h>
#include <stdio.h>
#include <stdlib.h>
#include <string.h>
#include "blake3.h"
#include "blake3_impl.h"

extern _Atomic int g_cpu_features;
enum { SSE2 = 1, SSSE3 = 2, SSE41 = 4, AVX = 8, AVX2 = 16, AVX512F = 32, AVX512VL = 64, UNDEF = 1 << 30 };

static uint8_t *exact(size_t n) { /* malloc(0) may return NULL: keep a 1-byte block but never touch it */
  uint8_t *p = malloc(n ? n : 1);
  if (!p) abort();
  return p;
}

static unsigned long cases = 0;

static void history(const size_t *splits, size_t nsplits, int mode, uint64_t seek, size_t out_len, uint8_t *ref, int have_ref) {
  blake3_hasher h;
  uint8_t key[32];
  for (int i = 0; i < 32; i++) key[i] = (uint8_t)(i * 7 + 1);
  if (mode == 0) blake3_hasher_init(&h);
  else if (mode == 1) blake3_hasher_init_keyed(&h, key);
  else if (mode == 2) blake3_hasher_init_derive_key(&h, "sanitizer driver context");
  else blake3_hasher_init_derive_key_raw(&h, "sanitizer driver context", 24);
  size_t pos = 0;
  for (size_t i = 0; i < nsplits; i++) {
    uint8_t *in = exact(splits[i]);
    for (size_t j = 0; j < splits[i]; j++) in[j] = (uint8_t)((pos + j) % 251);
    blake3_hasher_update(&h, in, splits[i]);
    pos += splits[i];
    free(in);
  }
  uint8_t *out = exact(out_len);
  blake3_hasher_finalize_seek(&h, seek, out, out_len);
  if (have_ref && out_len && memcmp(out, ref, out_len) != 0) {
    printf("MASK-DISAGREEMENT mode=%d seek=%llu out_len=%zu\n", mode, (unsigned long long)seek, out_len);
    exit(3);
  }
  if (!have_ref && out_len) memcpy(ref, out, out_len);
  free(out);
  blake3_hasher_reset(&h);
  cases++;
}

static void kernels_direct(int mask) {
  /* every input separately allocated, exact size; output exact size */
  for (size_t blocks = 1; blocks <= 16; blocks += 15) {
    for (size_t n = 0; n <= 35; n++) {
      const uint8_t *inputs[36];
      for (size_t i = 0; i < n; i++) {
        uint8_t *p = exact(64 * blocks);
        memset(p, (int)(i + 1), 64 * blocks);
        inputs[i] = p;
      }
      uint32_t key[8] = {1, 2, 3, 4, 5, 6, 7, 8};
      uint8_t *out = exact(32 * n);
      const uint8_t **ptrs = (const uint8_t **)exact(sizeof(uint8_t *) * n);
      memcpy(ptrs, inputs, sizeof(uint8_t *) * n);
      blake3_hash_many_portable(ptrs, n, blocks, key, 0xffffffffull - 3, true, 0x10, 1, 2, out);
      if (mask & SSE2) blake3_hash_many_sse2(ptrs, n, blocks, key, 0xffffffffull - 3, true, 0x10, 1, 2, out);
      if (mask & SSE41) blake3_hash_many_sse41(ptrs, n, blocks, key, 0xffffffffull - 3, true, 0x10, 1, 2, out);
      if (mask & AVX2) blake3_hash_many_avx2(ptrs, n, blocks, key, 0xffffffffull - 3, false, 0x10, 1, 2, out);
      if ((mask & AVX512F) && (mask & AVX512VL)) blake3_hash_many_avx512(ptrs, n, blocks, key, 0xffffffffull - 3, true, 0x10, 1, 2, out);
      free(ptrs);
      free(out);
      for (size_t i = 0; i < n; i++) free((void *)inputs[i]);
      cases++;
    }
  }
  uint32_t *cv = (uint32_t *)exact(32);
  uint8_t *block = exact(64);
  memset(cv, 0x5a, 32);
  memset(block, 0xa5, 64);
  for (unsigned bl = 0; bl <= 64; bl++) {
    uint8_t *o = exact(64);
    blake3_compress_xof_portable(cv, block, (uint8_t)bl, 1ull << 40, 0x0b, o);
    if (mask & SSE2) blake3_compress_xof_sse2(cv, block, (uint8_t)bl, 1ull << 40, 0x0b, o);
    if (mask & SSE41) blake3_compress_xof_sse41(cv, block, (uint8_t)bl, 1ull << 40, 0x0b, o);
    if ((mask & AVX512F) && (mask & AVX512VL)) blake3_compress_xof_avx512(cv, block, (uint8_t)bl, 1ull << 40, 0x0b, o);
    free(o);
    uint32_t *c2 = (uint32_t *)exact(32);
    memcpy(c2, cv, 32);
    blake3_compress_in_place_portable(c2, block, (uint8_t)bl, 7, 0xff);
    if (mask & SSE2) blake3_compress_in_place_sse2(c2, block, (uint8_t)bl, 7, 0xff);
    if (mask & SSE41) blake3_compress_in_place_sse41(c2, block, (uint8_t)bl, 7, 0xff);
    if ((mask & AVX512F) && (mask & AVX512VL)) blake3_compress_in_place_avx512(c2, block, (uint8_t)bl, 7, 0xff);
    free(c2);
    cases++;
  }
  if ((mask & AVX512F) && (mask & AVX512VL)) {
    for (size_t n = 1; n <= 40; n++) {
      uint8_t *o = exact(64 * n);
      blake3_xof_many_avx512(cv, block, 64, 0xffffffffull - 5, 0x08, o, n);
      free(o);
      cases++;
    }
  }
  free(cv);
  free(block);
}

int main(void) {
  blake3_hasher probe;
  blake3_hasher_init(&probe);
  (void)blake3_simd_degree();
  int real = g_cpu_features;
  int masks[5] = {0, SSE2, SSE2 | SSSE3 | SSE41, SSE2 | SSSE3 | SSE41 | AVX | AVX2, SSE2 | SSSE3 | SSE41 | AVX | AVX2 | AVX512F | AVX512VL};
  static const size_t splits[][6] = {
      {0, 0, 0, 0, 0, 0}, {1, 0, 0, 0, 0, 0}, {63, 1, 1, 0, 0, 0}, {64, 64, 0, 0, 0, 0}, {1023, 1, 1, 0, 0, 0}, {1024, 1024, 0, 0, 0, 0}, {1025, 1023, 0, 0, 0, 0},
      {1, 2047, 1, 0, 0, 0}, {4096, 0, 1, 0, 0, 0}, {1, 16384, 0, 0, 0, 0}, {17408, 1, 0, 0, 0, 0}, {65536, 1025, 0, 0, 0, 0}, {1024, 65536, 3, 0, 0, 0}, {7, 131072, 1, 0, 0, 0},
      {3072, 1024, 4096, 8192, 1, 0}, {200000, 0, 0, 0, 0, 0}};
  static const struct { uint64_t seek; size_t len; } probes[] = {
      {0, 0}, {0, 1}, {0, 32}, {0, 64}, {0, 65}, {0, 131}, {1, 64}, {63, 2}, {64, 64}, {65, 130}, {100, 31}, {1000, 0},
      {64ull * (1ull << 32) - 65, 131}, {64ull * ((1ull << 32) - 16) - 1, 64 * 17 + 2}, {UINT64_MAX - 70, 70}, {UINT64_MAX, 0}, {5, 4099}};
  static uint8_t ref[8192];
  for (size_t s = 0; s < sizeof(splits) / sizeof(splits[0]); s++) {
    for (int mode = 0; mode < 4; mode++) {
      for (size_t p = 0; p < sizeof(probes) / sizeof(probes[0]); p++) {
        int have = 0;
        for (int m = 0; m < 5; m++) {
          if ((real & masks[m]) != masks[m]) continue;
          g_cpu_features = masks[m];
          history(splits[s], 6, mode, probes[p].seek, probes[p].len, ref, have);
          have = 1;
        }
      }
    }
  }
  for (int m = 0; m < 5; m++) {
    if ((real & masks[m]) != masks[m]) continue;
    kernels_direct(masks[m]);
  }
  printf("SANITIZER-DRIVER-OK cases=%lu\n", cases);
  return 0;
}
