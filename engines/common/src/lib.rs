//! Shared machinery for the /verif engines: command line, report, content
//! streams, 128-bit state fingerprints, a tiny parallel map.

pub use serde_json;
use serde_json::{json, Map, Value};
use std::collections::BTreeMap;
use std::hash::Hasher as _;
use std::time::Instant;

// ------------------------------------------------------------------------------------------------
// command line

#[derive(Clone, Debug)]
pub struct Args {
    pub prop: String,
    pub tier: String,
    pub seed: u64,
    pub report: String,
    pub replay: Option<String>,
    pub jobs: usize,
    pub extra: BTreeMap<String, String>,
}

impl Args {
    pub fn parse() -> Args {
        let mut a = Args {
            prop: String::new(),
            tier: "quick".into(),
            seed: 1,
            report: String::new(),
            replay: None,
            jobs: std::thread::available_parallelism().map(|n| n.get()).unwrap_or(4),
            extra: BTreeMap::new(),
        };
        let v: Vec<String> = std::env::args().skip(1).collect();
        let mut i = 0;
        while i < v.len() {
            let k = v[i].clone();
            let val = v.get(i + 1).cloned().unwrap_or_default();
            match k.as_str() {
                "--prop" => a.prop = val,
                "--tier" => a.tier = val,
                "--seed" => a.seed = val.parse().unwrap_or(1),
                "--report" => a.report = val,
                "--replay" => a.replay = Some(val),
                "--jobs" => a.jobs = val.parse().unwrap_or(a.jobs),
                other if other.starts_with("--") => {
                    a.extra.insert(other[2..].to_string(), val);
                }
                _ => {
                    eprintln!("unexpected argument {}", k);
                    std::process::exit(2);
                }
            }
            i += 2;
        }
        if a.prop.is_empty() || (a.report.is_empty() && a.replay.is_none()) {
            eprintln!("usage: --prop <id> --tier quick|thorough --seed N --report <path> [--replay <path>] [--jobs N]");
            std::process::exit(2);
        }
        a
    }
    pub fn thorough(&self) -> bool {
        self.tier == "thorough"
    }
}

// ------------------------------------------------------------------------------------------------
// report

#[derive(Clone, Debug)]
pub struct Violation {
    pub key: String,
    pub summary: String,
    pub replay: Value,
}

#[derive(Debug)]
pub struct Report {
    pub property: String,
    pub tier: String,
    pub seed: u64,
    pub engine: String,
    pub level: String,
    pub exhaustive: bool,
    pub caps_hit: Vec<String>,
    pub configs: Vec<Value>,
    pub counters: BTreeMap<String, u64>,
    pub rule: String,
    pub samples: Vec<Value>,
    pub assumptions: Vec<String>,
    pub violations: Vec<Violation>,
    pub notes: Vec<String>,
    pub extra: Map<String, Value>,
    start: Instant,
}

pub const MAX_SAMPLES: usize = 12;
pub const MAX_VIOLATIONS: usize = 40;

impl Report {
    pub fn new(args: &Args, engine: &str, level: &str) -> Report {
        Report {
            property: args.prop.clone(),
            tier: args.tier.clone(),
            seed: args.seed,
            engine: engine.into(),
            level: level.into(),
            exhaustive: true,
            caps_hit: vec![],
            configs: vec![],
            counters: BTreeMap::new(),
            rule: String::new(),
            samples: vec![],
            assumptions: vec![],
            violations: vec![],
            notes: vec![],
            extra: Map::new(),
            start: Instant::now(),
        }
    }
    /// A worker-local accumulator with the same identity as `self`.
    pub fn child(&self) -> Report {
        Report {
            property: self.property.clone(),
            tier: self.tier.clone(),
            seed: self.seed,
            engine: self.engine.clone(),
            level: self.level.clone(),
            exhaustive: true,
            caps_hit: vec![],
            configs: vec![],
            counters: BTreeMap::new(),
            rule: String::new(),
            samples: vec![],
            assumptions: vec![],
            violations: vec![],
            notes: vec![],
            extra: Map::new(),
            start: Instant::now(),
        }
    }
    pub fn add(&mut self, counter: &str, n: u64) {
        *self.counters.entry(counter.to_string()).or_insert(0) += n;
    }
    pub fn inc(&mut self, counter: &str) {
        self.add(counter, 1);
    }
    pub fn max(&mut self, counter: &str, n: u64) {
        let e = self.counters.entry(counter.to_string()).or_insert(0);
        if n > *e {
            *e = n;
        }
    }
    pub fn get(&self, counter: &str) -> u64 {
        *self.counters.get(counter).unwrap_or(&0)
    }
    pub fn sample(&mut self, v: Value) {
        if self.samples.len() < MAX_SAMPLES {
            self.samples.push(v);
        }
    }
    pub fn violation(&mut self, key: &str, summary: String, replay: Value) {
        self.inc("violations_seen");
        // keep the first few per key; BFS / simplest-first ordering makes the first the smallest
        let same = self.violations.iter().filter(|v| v.key == key).count();
        if same < 3 && self.violations.len() < MAX_VIOLATIONS {
            self.violations.push(Violation { key: key.into(), summary, replay });
        }
    }
    pub fn cap(&mut self, what: &str) {
        self.exhaustive = false;
        if !self.caps_hit.iter().any(|c| c == what) {
            self.caps_hit.push(what.into());
        }
    }
    pub fn merge(&mut self, other: Report) {
        for (k, v) in other.counters {
            if k.starts_with("max_") {
                self.max(&k, v);
            } else {
                self.add(&k, v);
            }
        }
        for s in other.samples {
            self.sample(s);
        }
        for v in other.violations {
            let same = self.violations.iter().filter(|x| x.key == v.key).count();
            if same < 3 && self.violations.len() < MAX_VIOLATIONS {
                self.violations.push(v);
            }
        }
        if !other.exhaustive {
            self.exhaustive = false;
        }
        for c in other.caps_hit {
            if !self.caps_hit.contains(&c) {
                self.caps_hit.push(c);
            }
        }
        for c in other.configs {
            if !self.configs.contains(&c) {
                self.configs.push(c);
            }
        }
        for n in other.notes {
            if !self.notes.contains(&n) {
                self.notes.push(n);
            }
        }
        for a in other.assumptions {
            if !self.assumptions.contains(&a) {
                self.assumptions.push(a);
            }
        }
        for (k, v) in other.extra {
            self.extra.insert(k, v);
        }
    }
    pub fn to_json(&self) -> Value {
        let mut counters = Map::new();
        for (k, v) in &self.counters {
            counters.insert(k.clone(), json!(v));
        }
        let viol: Vec<Value> = self
            .violations
            .iter()
            .map(|v| json!({"key": v.key, "summary": v.summary, "replay": v.replay}))
            .collect();
        let mut o = json!({
            "property": self.property, "tier": self.tier, "seed": self.seed, "engine": self.engine,
            "level": self.level, "exhaustive": self.exhaustive, "caps_hit": self.caps_hit,
            "configs": self.configs, "counters": counters, "rule": self.rule, "samples": self.samples,
            "assumptions": self.assumptions, "violations": viol, "notes": self.notes,
            "wall_s": self.start.elapsed().as_secs_f64(),
        });
        for (k, v) in &self.extra {
            o[k] = v.clone();
        }
        o
    }
    pub fn write(&self, path: &str) {
        let s = serde_json::to_string_pretty(&self.to_json()).unwrap();
        if let Err(e) = std::fs::write(path, s) {
            eprintln!("cannot write report {}: {}", path, e);
            std::process::exit(2);
        }
    }
}

// ------------------------------------------------------------------------------------------------
// content streams

/// Stream A: upstream's 251-periodic paint, so the published vectors apply verbatim.
pub fn stream_a(n: usize) -> Vec<u8> {
    (0..n).map(|i| (i % 251) as u8).collect()
}

/// Stream B: xorshift64* bytes from `seed` (full-entropy, no period that matters).
pub fn stream_b(seed: u64, n: usize) -> Vec<u8> {
    let mut x = seed.wrapping_mul(0x9E37_79B9_7F4A_7C15) | 1;
    let mut out = Vec::with_capacity(n + 8);
    while out.len() < n {
        x ^= x >> 12;
        x ^= x << 25;
        x ^= x >> 27;
        let v = x.wrapping_mul(0x2545_F491_4F6C_DD1D);
        out.extend_from_slice(&v.to_le_bytes());
    }
    out.truncate(n);
    out
}

pub fn stream(name: &str, seed: u64, n: usize) -> Vec<u8> {
    match name {
        "A" => stream_a(n),
        "B" => stream_b(seed, n),
        "C" => stream_b(seed ^ 0xDEAD_BEEF_CAFE_F00D, n),
        // degenerate contents: a shortcut keyed on "this block / chunk looks like the last one" or on
        // zero words would only show on these
        "Z" => vec![0u8; n],
        "F" => vec![0xffu8; n],
        "P64" => {
            let b = stream_b(seed ^ 0x64, 64);
            (0..n).map(|i| b[i % 64]).collect()
        }
        "P1024" => {
            let b = stream_b(seed ^ 0x1024, 1024);
            (0..n).map(|i| b[i % 1024]).collect()
        }
        "S" => (0..n).map(|i| if i % 64 == 63 { 0x80 } else { 0 }).collect(),
        _ => panic!("unknown stream {}", name),
    }
}

pub const TEST_KEY: &[u8; 32] = b"whats the Elvish word for friend";
pub const TEST_CONTEXT: &str = "BLAKE3 2019-12-27 16:29:52 test vectors context";

pub fn hex(b: &[u8]) -> String {
    let mut s = String::with_capacity(b.len() * 2);
    for x in b {
        s.push_str(&format!("{:02x}", x));
    }
    s
}

// ------------------------------------------------------------------------------------------------
// fingerprints: 128 bits from two differently-prefixed SipHash passes (deterministic keys)

pub fn fingerprint(bytes: &[u8]) -> u128 {
    #[allow(deprecated)]
    let mut h1 = std::hash::SipHasher::new_with_keys(0x0123_4567_89ab_cdef, 0xfedc_ba98_7654_3210);
    #[allow(deprecated)]
    let mut h2 = std::hash::SipHasher::new_with_keys(0x1357_9bdf_0246_8ace, 0x0f1e_2d3c_4b5a_6978);
    h1.write(bytes);
    h2.write(bytes);
    ((h1.finish() as u128) << 64) | h2.finish() as u128
}

// ------------------------------------------------------------------------------------------------
// panics

/// Run `f`, turning a panic into Err(message). The default panic hook is silenced while `quiet`.
pub fn catch<T>(f: impl FnOnce() -> T) -> Result<T, String> {
    match std::panic::catch_unwind(std::panic::AssertUnwindSafe(f)) {
        Ok(v) => Ok(v),
        Err(e) => {
            let msg = if let Some(s) = e.downcast_ref::<&str>() {
                s.to_string()
            } else if let Some(s) = e.downcast_ref::<String>() {
                s.clone()
            } else {
                "non-string panic".to_string()
            };
            Err(msg)
        }
    }
}

pub fn silence_panics() {
    if std::env::var_os("VERIF_PANIC_VERBOSE").is_none() {
        std::panic::set_hook(Box::new(|_| {}));
    }
}

// ------------------------------------------------------------------------------------------------
// parallel map over work items with worker-local reports

pub fn par_run<T: Send + Sync>(
    jobs: usize,
    items: Vec<T>,
    base: &Report,
    f: impl Fn(&T, &mut Report) + Send + Sync,
) -> Report {
    use std::sync::atomic::{AtomicUsize, Ordering};
    let next = AtomicUsize::new(0);
    let mut total = base.child();
    let n = items.len();
    let results: Vec<Report> = std::thread::scope(|s| {
        let mut hs = vec![];
        for _ in 0..jobs.max(1).min(n.max(1)) {
            let next = &next;
            let items = &items;
            let f = &f;
            let mut local = base.child();
            hs.push(
                std::thread::Builder::new()
                    .stack_size(16 << 20)
                    .spawn_scoped(s, move || {
                        loop {
                            let i = next.fetch_add(1, Ordering::SeqCst);
                            if i >= n {
                                break;
                            }
                            f(&items[i], &mut local);
                        }
                        local
                    })
                    .unwrap(),
            );
        }
        hs.into_iter()
            .map(|h| match h.join() {
                Ok(r) => r,
                Err(_) => {
                    eprintln!("engine worker panicked outside a subject call");
                    std::process::exit(2);
                }
            })
            .collect()
    });
    for r in results {
        total.merge(r);
    }
    total
}

/// Wall-clock budget helper for thorough tiers: caps are reported, never hidden.
pub struct Budget {
    start: Instant,
    limit_s: f64,
}
impl Budget {
    pub fn new(limit_s: f64) -> Budget {
        Budget { start: Instant::now(), limit_s }
    }
    pub fn exceeded(&self) -> bool {
        self.start.elapsed().as_secs_f64() > self.limit_s
    }
}
