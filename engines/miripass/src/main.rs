//! Run with: cargo +nightly miri run --offline   (RUSTFLAGS="--cfg blake3_team_blake3_verif")
use std::sync::atomic::{AtomicUsize, Ordering};

static JOINS: AtomicUsize = AtomicUsize::new(0);

/// Both halves of every split really run on two threads (scoped, joined before returning).
fn threaded_join(a: &mut (dyn FnMut() + Send), b: &mut (dyn FnMut() + Send)) {
    JOINS.fetch_add(1, Ordering::SeqCst);
    std::thread::scope(|s| {
        let h = s.spawn(move || b());
        a();
        h.join().expect("right half");
    });
}

fn data(n: usize, salt: u8) -> Vec<u8> {
    (0..n).map(|i| ((i * 131 + salt as usize) % 251) as u8).collect()
}

fn main() {
    blake3::verif_hooks::set_join_hook(Some(threaded_join));
    // C08: update_with_join with concurrent halves equals update, for a few split trees
    for (prefix, len) in [(0usize, 2048usize), (0, 4096 + 100), (1, 3 * 1024), (1024, 8 * 1024 + 7)] {
        let d = data(prefix + len, 3);
        let mut a = blake3::Hasher::new_keyed(&[7; 32]);
        a.update(&d[..prefix]);
        a.update(&d[prefix..]);
        let mut b = blake3::Hasher::new_keyed(&[7; 32]);
        b.update(&d[..prefix]);
        b.verif_update_with_join(&d[prefix..]);
        assert_eq!(a.finalize(), b.finalize(), "threaded join differs from update ({}, {})", prefix, len);
    }
    assert!(JOINS.load(Ordering::SeqCst) > 0, "no split happened");
    // C18: independent instances on different threads at the same time (incl. the reader adapter)
    let d = std::sync::Arc::new(data(6000, 9));
    let mut hs = vec![];
    for t in 0..3usize {
        let d = d.clone();
        hs.push(std::thread::spawn(move || match t {
            0 => {
                let mut h = blake3::Hasher::new();
                h.update_reader(&d[..3000]).unwrap();
                h.update(&d[3000..]);
                *h.finalize().as_bytes()
            }
            1 => {
                let mut h = blake3::Hasher::new_keyed(&[1; 32]);
                h.update(&d[..2049]);
                let mut o = [0u8; 32];
                let mut r = h.finalize_xof();
                r.set_position(64 * 5 + 3);
                r.fill(&mut o);
                o
            }
            _ => blake3::derive_key("vmiri", &d[..1025]),
        }));
    }
    let got: Vec<[u8; 32]> = hs.into_iter().map(|h| h.join().unwrap()).collect();
    // the same sequences alone
    let want0 = {
        let mut h = blake3::Hasher::new();
        h.update(&d[..]);
        *h.finalize().as_bytes()
    };
    assert_eq!(got[0], want0);
    assert_eq!(got[2], blake3::derive_key("vmiri", &d[..1025]));
    println!("MIRI-PASS-OK joins={}", JOINS.load(Ordering::SeqCst));
}
